#!/usr/bin/env python3
"""Whole-package behaviour-preserving transformation: rename every local variable of every function and re-print
every module from its syntax tree (so that all line numbers, comments and formatting change too).

Writes a transformed copy of /repo/kingdon to <outdir>/kingdon.  Used as a tolerance test of the checks: with
KVERIF_REPO=<outdir> every check must stay silent (development tool; the registered checks analyse /repo itself).

Renamed: names bound inside a function body (assignment, for / with / except targets, walrus, comprehension
variables) that are neither parameters nor declared global / nonlocal; uses inside nested lambdas, comprehensions
and inner functions follow unless the inner scope rebinds the name.  Parameters, attributes, keyword names, function
and class names are left alone (they are API).

Options: --return-via-local, --flip-branches, --attr-via-getattr (every attribute load inside a function becomes getattr(x, 'name'),
every single attribute assignment setattr(x, 'name', v)).

Usage: python3-vt tools/alpha_rename.py [options] <outdir> [suffix]
"""
import ast
import os
import shutil
import sys


def bound_names(fn):
    """Names bound directly in the scope of `fn` (not in nested function / class scopes)."""
    out, declared = set(), set()

    def visit(n, top=False):
        if isinstance(n, (ast.FunctionDef, ast.AsyncFunctionDef, ast.ClassDef)) and not top:
            out.add(n.name)
            return
        if isinstance(n, ast.Lambda) and not top:
            return
        if isinstance(n, (ast.Global, ast.Nonlocal)):
            declared.update(n.names)
        if isinstance(n, ast.Name) and isinstance(n.ctx, (ast.Store, ast.Del)):
            out.add(n.id)
        if isinstance(n, ast.ExceptHandler) and n.name:
            out.add(n.name)
        if isinstance(n, (ast.Import, ast.ImportFrom)):
            for a in n.names:
                declared.add((a.asname or a.name).split(".")[0])     # bound by the import statement: keep the name
        if isinstance(n, (ast.ListComp, ast.SetComp, ast.DictComp, ast.GeneratorExp)):
            # comprehension variables live in their own scope; walrus targets inside leak to the function
            for w in ast.walk(n):
                if isinstance(w, ast.NamedExpr) and isinstance(w.target, ast.Name):
                    out.add(w.target.id)
            return
        for ch in ast.iter_child_nodes(n):
            visit(ch)
    for st in (fn.body if isinstance(fn.body, list) else [fn.body]):
        visit(st)
    return out - declared, declared


def params_of(fn):
    a = fn.args
    ps = [x.arg for x in a.posonlyargs + a.args + a.kwonlyargs]
    if a.vararg:
        ps.append(a.vararg.arg)
    if a.kwarg:
        ps.append(a.kwarg.arg)
    return set(ps)


class Renamer(ast.NodeTransformer):
    def __init__(self, suffix):
        self.suffix = suffix
        self.stack = [{}]          # mapping old -> new per enclosing function scope (innermost last)

    def lookup(self, name):
        for m in reversed(self.stack):
            if name in m:
                return m[name]
        return name

    def _function(self, node):
        ps = params_of(node)
        locals_, declared = bound_names(node)
        mapping = {n: None for n in ps | declared}                     # shadow: keep the name
        for n in locals_ - ps:
            if n.startswith("__") or n == "_":
                mapping[n] = None
            else:
                mapping[n] = n + self.suffix
        # defaults and decorators are evaluated in the enclosing scope
        node.args.defaults = [self.visit(d) for d in node.args.defaults]
        node.args.kw_defaults = [self.visit(d) if d is not None else None for d in node.args.kw_defaults]
        if hasattr(node, "decorator_list"):
            node.decorator_list = [self.visit(d) for d in node.decorator_list]
        self.stack.append({k: (v if v is not None else k) for k, v in mapping.items()})
        if isinstance(node.body, list):
            node.body = [self.visit(st) for st in node.body]
        else:
            node.body = self.visit(node.body)
        self.stack.pop()
        return node

    def visit_FunctionDef(self, node):
        # the function's own name is bound in the ENCLOSING scope
        if len(self.stack) > 1:
            node.name = self.lookup(node.name)
        return self._function(node)

    visit_AsyncFunctionDef = visit_FunctionDef

    def visit_Lambda(self, node):
        return self._function(node)

    def visit_ClassDef(self, node):
        if len(self.stack) > 1:
            node.name = self.lookup(node.name)
        node.bases = [self.visit(b) for b in node.bases]
        node.decorator_list = [self.visit(d) for d in node.decorator_list]
        # names bound in a class body are attributes: leave them; functions inside start fresh scopes over the outer ones
        self.stack.append({st.targets[0].id: st.targets[0].id for st in node.body
                           if isinstance(st, ast.Assign) and isinstance(st.targets[0], ast.Name)})
        saved = self.stack
        body = []
        for st in node.body:
            if isinstance(st, (ast.FunctionDef, ast.AsyncFunctionDef)):
                # methods do not see class-level names as free variables
                self.stack = saved[:-1]
                body.append(self._function(st))
                self.stack = saved
            else:
                body.append(self.visit(st))
        node.body = body
        self.stack.pop()
        return node

    def _comprehension(self, node):
        targets = set()
        for g in node.generators:
            for t in ast.walk(g.target):
                if isinstance(t, ast.Name):
                    targets.add(t.id)
        # the first iterable is evaluated in the enclosing scope
        first = self.visit(node.generators[0].iter)
        self.stack.append({t: t + self.suffix for t in targets})
        for i, g in enumerate(node.generators):
            g.target = self.visit(g.target)
            g.iter = first if i == 0 else self.visit(g.iter)
            g.ifs = [self.visit(c) for c in g.ifs]
        if isinstance(node, ast.DictComp):
            node.key = self.visit(node.key)
            node.value = self.visit(node.value)
        else:
            node.elt = self.visit(node.elt)
        self.stack.pop()
        return node

    visit_ListComp = visit_SetComp = visit_GeneratorExp = visit_DictComp = _comprehension

    def visit_Name(self, node):
        node.id = self.lookup(node.id)
        return node

    def visit_ExceptHandler(self, node):
        if node.name:
            node.name = self.lookup(node.name)
        return self.generic_visit(node)

    def visit_Global(self, node):
        return node

    def visit_Nonlocal(self, node):
        node.names = [self.lookup(n) for n in node.names]
        return node


class ReturnViaLocal(ast.NodeTransformer):
    """`return <expr>`  ->  `result_ = <expr>; return result_`  (a second behaviour-preserving transformation: it
    removes every `return <call>` shape a syntactic recogniser might rely on)."""

    def visit_Lambda(self, node):
        return node

    def _body(self, stmts):
        out = []
        for st in stmts:
            st = self.visit(st)
            if isinstance(st, ast.Return) and st.value is not None and not isinstance(st.value, (ast.Name, ast.Constant)):
                out.append(ast.Assign(targets=[ast.Name(id="result_", ctx=ast.Store())], value=st.value, lineno=st.lineno))
                out.append(ast.Return(value=ast.Name(id="result_", ctx=ast.Load())))
            else:
                out.append(st)
        return out

    def generic_visit(self, node):
        for fld in ("body", "orelse", "finalbody"):
            v = getattr(node, fld, None)
            if isinstance(v, list) and v and isinstance(v[0], ast.stmt):
                setattr(node, fld, self._body(v))
        for h in getattr(node, "handlers", []) or []:
            h.body = self._body(h.body)
        for c in getattr(node, "cases", []) or []:
            c.body = self._body(c.body)
        return node


class FlipBranches(ast.NodeTransformer):
    """`if c: A else: B` -> `if not c: B else: A` (not for elif chains), `A if c else B` -> `B if not c else A`."""

    def visit_If(self, node):
        self.generic_visit(node)
        if node.orelse and not (len(node.orelse) == 1 and isinstance(node.orelse[0], ast.If)):
            node.test = ast.UnaryOp(op=ast.Not(), operand=node.test)
            node.body, node.orelse = node.orelse, node.body
        return node

    def visit_IfExp(self, node):
        self.generic_visit(node)
        return ast.IfExp(test=ast.UnaryOp(op=ast.Not(), operand=node.test), body=node.orelse, orelse=node.body)


class AttrViaGetattr(ast.NodeTransformer):
    """`a.b` (a load) -> `getattr(a, 'b')`; `a.b = v` as a statement with a single attribute target -> `setattr(a, 'b', v)`.
    Dunder attributes, decorators and class-level declarations are left alone."""

    def __init__(self):
        self.depth = 0

    def visit_FunctionDef(self, node):
        decos = node.decorator_list
        node.decorator_list = []
        self.depth += 1
        self.generic_visit(node)
        self.depth -= 1
        node.decorator_list = decos
        return node

    def visit_Attribute(self, node):
        self.generic_visit(node)
        if self.depth and isinstance(node.ctx, ast.Load) and not node.attr.startswith("__"):
            return ast.copy_location(ast.Call(func=ast.Name(id="getattr", ctx=ast.Load()), args=[node.value, ast.Constant(value=node.attr)], keywords=[]), node)
        return node

    def visit_Assign(self, node):
        self.generic_visit(node)
        if self.depth and len(node.targets) == 1 and isinstance(node.targets[0], ast.Attribute) and not node.targets[0].attr.startswith("__"):
            t = node.targets[0]
            return ast.copy_location(ast.Expr(value=ast.Call(func=ast.Name(id="setattr", ctx=ast.Load()),
                                                             args=[t.value, ast.Constant(value=t.attr), node.value], keywords=[])), node)
        return node


def main():
    via_getattr = "--attr-via-getattr" in sys.argv
    if via_getattr:
        sys.argv.remove("--attr-via-getattr")
    flip = "--flip-branches" in sys.argv
    if flip:
        sys.argv.remove("--flip-branches")
    via_local = "--return-via-local" in sys.argv
    if via_local:
        sys.argv.remove("--return-via-local")
    out = sys.argv[1]
    suffix = sys.argv[2] if len(sys.argv) > 2 else "_r"
    dst = os.path.join(out, "kingdon")
    if os.path.exists(dst):
        shutil.rmtree(dst)
    shutil.copytree("/repo/kingdon", dst, ignore=shutil.ignore_patterns("__pycache__"))
    n = 0
    for root, _, files in os.walk(dst):
        for f in files:
            if not f.endswith(".py"):
                continue
            p = os.path.join(root, f)
            tree = ast.parse(open(p).read())
            r = Renamer(suffix)
            r.stack = [{}]
            # module level: only function bodies are renamed
            new_body = []
            for st in tree.body:
                new_body.append(r.visit(st))
            tree.body = new_body
            if via_local:
                tree = ReturnViaLocal().visit(tree)
            if flip:
                tree = FlipBranches().visit(tree)
            if via_getattr:
                tree = AttrViaGetattr().visit(tree)
            ast.fix_missing_locations(tree)
            src = ast.unparse(tree) + "\n"
            compile(src, p, "exec")
            open(p, "w").write(src)
            n += 1
    print(f"{n} modules rewritten into {dst}")


if __name__ == "__main__":
    main()
