#!/usr/bin/env python3
"""Behaviour-preserving refactorings of kingdon must leave every check silent.

/verif/seeded_benign/<id>/patch.diff are edits produced by independent sub-agents that were asked to refactor kingdon
WITHOUT changing behaviour (renames, helper extraction, reordered independent statements, other spellings of the same
computation; the pinned suite passes with each).  Every registered quick check is run against a scratch copy of
/repo/kingdon with one patch applied (outside /repo and /verif, removed afterwards); any VIOLATION or ANALYSIS-ERROR
is a false alarm of the machinery and makes this tool exit 1.  Development tool: the registered checks always analyse
/repo itself.

Usage: python3-vt tools/check_benign.py [<id> ...]     (default: all)
"""
import concurrent.futures
import glob
import json
import os
import sys

HERE = os.path.dirname(os.path.dirname(os.path.abspath(__file__)))
sys.path.insert(0, os.path.join(HERE, "tools"))
from eval_patch import run  # noqa: E402


def main():
    ids = sys.argv[1:] or sorted(os.path.basename(os.path.dirname(p))
                                 for p in glob.glob(os.path.join(HERE, "seeded_benign", "*", "patch.diff")))
    bad = 0
    with concurrent.futures.ThreadPoolExecutor(max_workers=int(os.environ.get("CHECK_BENIGN_WORKERS", "4"))) as ex:
        futs = {i: ex.submit(run, os.path.join(HERE, "seeded_benign", i, "patch.diff")) for i in ids}
        for i in ids:
            res = futs[i].result()
            if "error" in res:
                print(f"{i}: SKIPPED {res['error'][:120]}")
                bad += 1
            elif res:
                bad += 1
                print(f"{i}: FALSE ALARM {json.dumps(res)[:600]}")
            else:
                print(f"{i}: silent")
    print(f"{len(ids)} benign refactorings, {bad} with a reaction")
    return 1 if bad else 0


if __name__ == "__main__":
    sys.exit(main())
