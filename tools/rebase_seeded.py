#!/usr/bin/env python3
"""Re-base stored patches (seeded/<id> or seeded_benign/<id>) on the current /repo HEAD after a fix commit moved their context.

For each <dir>: scratch copy of /repo/kingdon (outside /repo and /verif, removed afterwards), `patch -p1 --fuzz=3`; if every
hunk applies the patch is regenerated as a plain diff against HEAD and written back.  Directories whose patch still
does not apply are listed (they need a manual edit).  The changes must be re-verified afterwards
(tools/verify_seeded.py / tools/verify_benign.py).

Usage: rebase_seeded.py <dir> [...]
"""
import os
import shutil
import subprocess
import sys
import tempfile

failed = []
for d in sys.argv[1:]:
    d = d.rstrip("/")
    pf = os.path.join(d, "patch.diff")
    if subprocess.run(["git", "-C", "/repo", "apply", "--check", pf], capture_output=True).returncode == 0:
        continue
    tmp = tempfile.mkdtemp(prefix="kverif_rb_")
    try:
        for sub in ("a", "b"):
            os.makedirs(os.path.join(tmp, sub))
            subprocess.run(f"git -C /repo archive HEAD kingdon | tar -x -C {tmp}/{sub}", shell=True, check=True)
        r = subprocess.run(["patch", "-p1", "--fuzz=3", "--no-backup-if-mismatch", "-d", os.path.join(tmp, "b"), "-i", os.path.abspath(pf)],
                           capture_output=True, text=True)
        if r.returncode != 0:
            failed.append((d, (r.stdout + r.stderr).strip().splitlines()[-3:]))
            continue
        out = subprocess.run(["diff", "-ruN", "--exclude=*.orig", "--exclude=*.rej", "a/kingdon", "b/kingdon"], cwd=tmp, capture_output=True, text=True).stdout
        open(pf, "w").write(out)
        print("rebased", d)
    finally:
        shutil.rmtree(tmp, ignore_errors=True)
for d, why in failed:
    print("FAILED", d, why)
sys.exit(1 if failed else 0)
