#!/usr/bin/env python3
"""Confirm that a refactoring patch applies to the current /repo HEAD and that the pinned suite passes with it.

For each <dir> with patch.diff: a scratch copy of /repo (git archive of HEAD, outside /repo and /verif, removed
afterwards), `patch -p1`, the full test suite, optionally extra demo scripts that must exit 0.  One JSON line per dir.

Usage: verify_benign.py [--demo <script.py>]... <dir> [...]
"""
import concurrent.futures
import json
import os
import shutil
import subprocess
import sys
import tempfile


def verify(d, demos):
    d = d.rstrip("/")
    res = {"dir": d}
    tmp = tempfile.mkdtemp(prefix="kverif_vb_")
    try:
        wt = os.path.join(tmp, "wt")
        os.makedirs(wt)
        subprocess.run("git -C /repo archive HEAD | tar -x -C " + wt, shell=True, check=True)
        ap = subprocess.run(["patch", "-p1", "-s", "-d", wt, "-i", os.path.join(d, "patch.diff")], capture_output=True, text=True)
        if ap.returncode:
            res["error"] = "patch does not apply: " + (ap.stdout + ap.stderr)[-200:]
            return res
        fuzz = "fuzz" in (ap.stdout + ap.stderr) or "offset" in (ap.stdout + ap.stderr)
        res["applied_with_fuzz"] = fuzz
        diff = subprocess.run("cd %s && git init -q . 2>/dev/null; true" % wt, shell=True)
        env = dict(os.environ, PYTHONPATH=wt)
        t = subprocess.run(["/venv/bin/python", "-m", "pytest", "-q", "-p", "no:cacheprovider", "-x"], cwd=wt, env=env,
                           capture_output=True, text=True)
        res["suite_tail"] = t.stdout.strip().splitlines()[-1] if t.stdout.strip() else t.stderr[-200:]
        res["suite_ok"] = t.returncode == 0
        res["demos"] = {}
        for demo in demos:
            r = subprocess.run(["/venv/bin/python", demo], cwd=tmp, env=env, capture_output=True, text=True)
            res["demos"][os.path.basename(demo)] = r.returncode
        res["confirmed"] = res["suite_ok"] and all(v == 0 for v in res["demos"].values())
        # the patch as it applies to HEAD (regenerated, so that it applies without fuzz)
        base = os.path.join(tmp, "base")
        os.makedirs(base)
        subprocess.run("git -C /repo archive HEAD | tar -x -C " + base, shell=True, check=True)
        dd = subprocess.run(["diff", "-ruN", "--exclude=*.orig", "--exclude=*.rej", "--exclude=__pycache__", "--exclude=.pytest_cache", "--exclude=.git", "base/kingdon", "wt/kingdon"],
                            cwd=tmp, capture_output=True, text=True)
        res["rebased_patch"] = dd.stdout.replace("--- base/", "--- a/").replace("+++ wt/", "+++ b/")
        return res
    finally:
        shutil.rmtree(tmp, ignore_errors=True)


def main():
    args = sys.argv[1:]
    demos = []
    while args and args[0] == "--demo":
        demos.append(os.path.abspath(args[1]))
        args = args[2:]
    with concurrent.futures.ThreadPoolExecutor(max_workers=6) as ex:
        for r in ex.map(lambda d: verify(d, demos), args):
            print(json.dumps(r), flush=True)


if __name__ == "__main__":
    main()
