#!/usr/bin/env python3
"""Write /verif/seeded/README.md from the meta.json files (which checks report which seeded change)."""
import glob
import json
import os

HERE = os.path.dirname(os.path.dirname(os.path.abspath(__file__)))

# What the first evaluation of each change showed, and what was strengthened (general rules / representatives,
# never a special case for the seeded text).  "AE" = the check stopped with ANALYSIS-ERROR (exit 2), "-" = silent.
FIRST = {
    "C01_2": ("-", "C01.sign-table: metric indeterminates per signature POSITION; custom bases whose labels start at 0 / 3"),
    "C02_1": ("AE", "lazily filled sign-table stand-in (dict.get / `in` do not trigger __missing__) as a C02.table representative"),
    "C02_2": ("-", "C08.symbolic-operand-order (real constructor, shuffled key pattern); C15.input-forms compares key ORDER"),
    "C03_1": ("AE", "lazily filled sign-table representative in C03.table (dict.get bypasses __missing__)"),
    "C13_1": ("other", "C08.key-provenance also serves C13 (wrapper(func) must be stored under func.__name__)"),
    "C04_1": ("-", "C04.cells representative 'same blades, other storage order'; C08.no-positional-codegen recognises zip over items()/values()/keys()"),
    "C04_2": ("other", "C11.dunder-agreement also serves C04"),
    "C05_2": ("AE", "custom-basis representatives for hodge / rp / gp; stand-in algebra resolves missing methods (e.g. _swap_blades_bin) from the source"),
    "C06_1": ("AE", "opaque property tokens in tree mode (x.grade(y.grades) has a normal form)"),
    "C07_1": ("-", "C07.shirokov-degree"),
    "C07_2": ("AE", "C07.closed-forms also through the dispatcher, in two grade cells of the operand"),
    "C08_2": ("-", "zero-padded operands as C19.outerexp representatives (C08)"),
    "C09_1": ("-", "C09.name-injective: the freshening assignment must dominate the store"),
    "C09_2": ("AE", "C09.numspace-writers (who may write the algebra's name space)"),
    "C10_2": ("other", "C02.call-pairing also serves C10"),
    "C11_2": ("-", "C11.grade"),
    "C12_1": ("AE", "re.split stand-in; symbol names with multi-digit suffixes in C12.binding-order"),
    "C14_1": ("AE", "as C05_2"),
    "C14_2": ("-", "C01.sign-table checks generator labels = position + start index (explicit 0 included)"),
    "C15_1": ("AE", "__dict__ of instance stand-ins, so a per-object cache is exercised by the sequential spelling queries of C01.blade-parity"),
    "C16_1": ("-", "C16.index-uniform"),
    "C16_2": ("AE", "Python-bodied reflected dunders compared as operator-tree normal forms"),
    "C17_1": ("-", "well-formedness includes kingdon's monomial order; monomial x mixed-degree representatives"),
    "C18_1": ("-", "C09.module-state (no module-level mutable state written by any function)"),
    "C18_2": ("-", "C18.expr-placeholders"),
    "C19_1": ("-", "C19.sqrt (structure of the emitted Study-number formula)"),
    "C20_1": ("AE", "getattr default; list-of-arrays multivector as a C20.recursion representative"),
    # ---- round 2 (ids _3, _4, _5) ----
    "C01_4": ("-", "dict-subclass store model: a lazily filled table is read through the object (get / in / [] / iteration), "
                   "so C01.lazy-eager compares what a CONSUMER sees, not what __missing__ returns"),
    "C09_4": ("-", "as C01_4 (C01.lazy-eager also serves C09: a table lookup must not depend on what was looked up before)"),
    "C02_4": ("other", "C08.key-provenance also serves C02 (the cache key must determine the key pattern the code was generated for)"),
    "C10_3": ("caught", ""),
    "C02_5": ("-", "C08.symbolic-operand-order: shuffled-key and reversed-key operand representatives through the real constructor"),
    "C03_5": ("other", "C16.reflected also serves C02-C07 (a reflected dunder is one of the documented surface forms of the product)"),
    "C06_4": ("other", "as C03_5"),
    "C04_5": ("AE", "Python-bodied documented methods are evaluated on representative multivectors (C04.registry-names)"),
    "C05_5": ("AE", "rp representatives whose result is a scalar; scalar-result cells in C05.rp-table"),
    "C08_3": ("other", "C11.grade also serves C08 and C04"),
    "C11_3": ("caught", ""),
    "C12_4": ("other", "C19.exp-branches also serves C12"),
    "C13_5": ("other", "C15.must-raise also serves C13"),
    "C15_3": ("AE", "stand-in algebra takes field defaults from the dataclass definition (build_algebra)"),
    "C16_5": ("-", "C16.operand-kinds"),
    "C17_5": ("-", "float coefficients as representatives, compared exactly as fractions"),
    "C19_4": ("other", "C11.python-siblings also serves C19 and C07"),
    "C20_4": ("AE", "C20.subjects re-evaluation cell (callable subject stand-in)"),
    "C20_5": ("-", "C20.key2idx representatives: d=4 and a custom basis"),
    "C11_4": ("-", "written against the tree before fix F14, adapted to HEAD; this change and C12_5 are what exposed F14 "
                   "(generated names not unique) - C09.token-atomic added, C09.name-injective/token-atomic also serve C11-C13"),
    "C12_5": ("-", "as C11_4"),
    "C09_5": ("caught", "written against the tree before fix F14, adapted to HEAD"),
    "C10_4": ("caught", "written against the tree before fix F14, adapted to HEAD"),
    # ---- round 3 (ids _6, _7, _8): agents were told which places rounds 1-2 had changed and asked for OTHER places ----
    "C01_7": ("other", "C13.graded-blades also serves C01 (a blade named e_ij is the product of its generators in graded mode too)"),
    "C01_8": ("other", "C15.kw-rekey also serves C01 and C14"),
    "C02_6": ("other", "C09.name-injective also serves C02 and C08"),
    "C02_7": ("-", "C09.own-operator-dicts (every algebra object owns operator dictionaries created for it, also after dataclasses.replace)"),
    "C02_8": ("AE", "a real 7-dimensional representative with a signature that is not laid out 0..,+..,-.. in C02.table"),
    "C03_6": ("AE", "operands of different grade profiles (rotor x vector, vector x rotor) in C03.table"),
    "C03_7": ("-", "C11.emission-pairing runs every operator of the registry, with a recorder and with a plain number"),
    "C03_8": ("other", "C16.positions also serves C02 and C03"),
    "C04_6": ("other", "the C17 arithmetic rules also serve the properties whose generated code is computed with that arithmetic (C02-C07, C11, C19)"),
    "C04_7": ("-", "C11.do-compile: recorded result in non-canonical key order"),
    "C04_8": ("other", "C08.key-provenance also serves C04 and C11"),
    "C06_7": ("other", "C11.dunder-agreement also serves C03, C05, C06, C07, C16"),
    "C06_8": ("other", "as C04_6"),
    "C07_6": ("other", "as C04_6"),
    "C07_7": ("AE", "C09.value-memo (nothing computed from coefficient values may be memoised on an object that can be updated in place)"),
    "C07_8": ("AE", "len facts for tree variables; single-blade-operand cell in C07.lambdify-input"),
    "C08_6": ("other", "C04.grade and C15.accessors also serve C08"),
    "C08_8": ("other", "as C02_6"),
    "C09_7": ("-", "C09.value-memo"),
    "C11_6": ("other", "as C04_6"),
    "C11_7": ("-", "as C04_7"),
    "C12_6": ("-", "lambdify cells with an explicit zero among non-zero expressions, and all zeros (C08.emitted-source, also C12)"),
    "C12_7": ("-", "C12.simp-func (the default simplification is a composition of value-preserving sympy transformations)"),
    "C12_8": ("other", "C18.expr-placeholders (rewritten as interpretation of the array branch) also serves C12"),
    "C13_7": ("AE", "dict unpacking in the interpreter; C09.own-operator-dicts"),
    "C13_8": ("-", "options handed to Algebra.fromname must reach the constructor (C14.named-bases, also C13)"),
    "C14_6": ("AE", "foreign-algebra variants in C14.algebra-check: same metric / other basis, same (p,q,r) / other signature order"),
    "C14_7": ("other", "as C01_8"),
    "C14_8": ("-", "generators as opaque elements in the tree-mode algebra (a wedge of the frame is not the spelled pseudoscalar); C05.polarity also serves C14"),
    "C15_6": ("other", "C11.grade also serves C15"),
    "C15_7": ("-", "lazily filled blade dictionary: request sequences on one object, a permuted spelling first (C01.blade-parity, also C09)"),
    "C15_8": ("other", "C11.coefficient-kind also serves C15"),
    "C16_6": ("other", "as C06_7"),
    "C16_7": ("-", "Registry.__call__ cells in C16.operand-kinds (nested callables in any argument)"),
    "C17_7": ("-", "Polynomial / number cells (odd coefficients divided by 2, 4, 0.5)"),
    "C17_8": ("-", "C17.tosympy (conversion interpreted with exact rational-function stand-ins for Symbol / Mul / Add)"),
    "C18_6": ("-", "first columns of the blade matrices are orthonormal (decided in the Kronecker domain; was listed as not decided)"),
    "C18_7": ("other", "C12.binding-order also serves C18"),
    "C18_8": ("-", "written before fix F7, adapted to HEAD; module-level decorators are applied once per interpreter, so state a decorator closes over persists across the algebras of C14.matrix-basis"),
    "C19_6": ("-", "as C17_7 (C17.polynomial-arith also serves C19)"),
    "C19_7": ("other", "C06.trees also serves C19"),
    "C20_8": ("-", "single graph function must reach the widget uncalled (C20.subjects)"),
    # ---- round 4 (ids _9, _10, _11): one change at the natural place, two where a reviewer would not look first ----
    "C01_11": ("other", "C02.table / C03.table also serve C01 (multiplying basis blades of a lazily filled algebra)"),
    "C02_10": ("-", "C11.recorder-keys (a recorder keeps the key tuple it is created with, in that order)"),
    "C02_11": ("other", "C01.lazy-eager also serves C02 and C03"),
    "C03_10": ("-", "operands stored as a pure scalar (key pattern (0,)) on either side in C03.table"),
    "C03_11": ("AE", "a real 7-dimensional representative in C03.table"),
    "C04_10": ("other", "C09.own-operator-dicts also serves C03-C07"),
    "C05_10": ("-", "C09.exception-atomic: generators raising ZeroDivisionError / NotImplementedError, no wrapper, and the second attempt must raise again (also C05, C07)"),
    "C05_11": ("-", "C08.pipeline-passthrough: the code generator is always run, also for operands that store no blade"),
    "C06_10": ("-", "C16.operand-kinds: a plain number goes through every binary operator's own generated function (rescaling accepted only where it IS the operator)"),
    "C06_11": ("AE", "grade / size cells of the operands in C06.trees"),
    "C07_10": ("other", "C03.table also serves C07 (the closed-form denominator is a scalar product)"),
    "C09_11": ("-", "C09.own-operator-dicts: a registry handed to the constructor is not modified in place"),
    "C11_9": ("-", "C11.emission-pairing with the numbers 1 and 0"),
    "C12_10": ("-", "C06.filter: coefficients that evaluate to 0 when probed (subs / evalf / ...) but that simp_func keeps must be kept"),
    "C12_9": ("AE", "C09.numspace-writers also serves C12"),
    "C13_11": ("-", "C08.pipeline-passthrough: prepared dependencies reach lambdify with cse off as well"),
    "C14_11": ("AE", "C14.algebra-check also with the key pattern already compiled (`key in self` is modelled)"),
    "C17_11": ("-", "Polynomial ** n cells (value and well-formedness)"),
    "C18_10": ("AE", "C09.owns-signature (the algebra keeps its own copy of the signature)"),
    "C19_10": ("AE", "necessary condition decided when the loop is not evaluable: outertan takes a quotient or inverse at all"),
    "C19_11": ("-", "quadvector representative in C19.outertrig"),
    # ---- round 5 (ids _12, _13, _14): multi-step / state / rare-input changes -----------------------------------
    "C01_12": ("other", "C09.name-injective also serves C01, C03-C07 (by-name dispatch under a wrapper is the path of every operator)"),
    "C02_13": ("-", "C17.monomial-cancel: a result whose term list holds a non-factor (None) is malformed, not an analyser gap; also serves C02-C07"),
    "C03_12": ("-", "`is` / `is not` between numbers is a violation wherever an engine meets it (bit-serial automaton, interpreter): the outcome is not a function of the values"),
    "C03_13": ("other", "C08.symbolic-operand-order also serves C03-C07"),
    "C04_12": ("other", "as C01_12"),
    "C04_14": ("-", "C09.value-memo recognises hand-rolled memos in the instance dictionary (setdefault / update / vars(self), also through a local alias)"),
    "C05_13": ("-", "C05.counts-follow-signature: p, q, r, d are the counts of the given signature, also when stale counts arrive with it (dataclasses.replace)"),
    "C05_14": ("AE", "the scalar coefficient of an expression in the pseudoscalar alone (I*I, I*~I, normsq(I)) is a number in tree mode"),
    "C06_12": ("other", "as C01_12"),
    "C06_13": ("AE", "C06.semantic: sw / proj / normsq interpreted on representative operands whose elementary operators answer with the specification (kverif/specmv.py)"),
    "C06_14": ("other", "C09.value-memo also serves C06, C04"),
    "C07_14": ("AE", "C07.div-order follows a branch on the truth value of the left operand both ways (non-empty / empty multivector)"),
    "C09_12": ("-", "C17.operands-intact: Polynomial / RationalPolynomial arithmetic never writes into the term lists of its operands"),
    "C10_12": ("-", "C10.value-blind-operands: forwarding methods are classified with a multivector operand AND plain numbers 5, 0, 0.0, -1, 1"),
    "C10_14": ("other", "C05.dual-table also serves C10 (auto mode decides by r, not by trial generation)"),
    "C11_12": ("other", "C08.emitted-source also serves C11"),
    "C11_14": ("other", "C08.codegen-pipeline also serves C11"),
    "C13_12": ("-", "single-blade operand cells in C08.emitted-source (`a = A` binds the whole sequence, it unpacks nothing)"),
    "C13_14": ("-", "four-dimensional cells in C13.graded-blades (canonical order of a grade is not ascending)"),
    "C14_12": ("-", "C14.matrix-basis configuration 'only an orientation differs'"),
    "C14_13": ("other", "C11.coefficient-kind also serves C14"),
    "C15_13": ("-", "C15.kw-rekey: two non-canonical spellings of one blade, either order"),
    "C16_12": ("-", "C16.index-uniform: a list is one (fancy) index, for __getitem__ and __setitem__"),
    "C16_13": ("other", "C17.rational-identities also serves C16"),
    "C16_14": ("-", "C11.emission-pairing with numbers that need more than six digits; literals compared by value and type; also serves C16"),
    "C19_12": ("-", "C19.str-embeds: the text of a RationalPolynomial still denotes it under **, /, unary minus and as a factor"),
    "C19_13": ("other", "C07.closed-forms also serves C19 (negative powers)"),
    "C19_14": ("other", "C07.shirokov-recursion also serves C19; written before fix F15, adapted to HEAD"),
    "C02_14": ("caught", "first evaluated after the round-5 strengthening (the sub-agent finished late)"),
}

rows = []
for f in sorted(glob.glob(os.path.join(HERE, "seeded", "*", "meta.json"))):
    m = json.load(open(f))
    rep = "; ".join(f"{p}: {', '.join(v['rules']) or v['verdict']}" for p, v in sorted(m["reported_by"].items()) if v["verdict"] == "VIOLATION")
    first, strengthened = FIRST.get(m["id"], ("caught", ""))
    needs = " ".join(m["needs_to_manifest"].split())[:260]
    rows.append((m["id"], m["breaks_property"], needs, rep or "(none)", first, strengthened,
                 "yes" if m["caught_by_own_property_check"] else "NO"))

own = sum(1 for r in rows if r[6] == "yes")
out = ["# Independently seeded changes", "",
       f"{len(rows)} changes, each produced by a fresh sub-agent that saw only the text of the property and a private scratch "
       "worktree of `/repo`, each confirmed (`tools/verify_seeded.py`: demonstration passes on the unchanged source, fails with "
       "the change, the pinned suite still passes with the change) and then run through every registered quick check with the "
       "patch applied to `/repo` and undone straight afterwards (`tools/store_seeded.py`; details in each `meta.json`).", "",
       f"Reported as VIOLATION by the check of the property it was written against: **{own} of {len(rows)}**. "
       "Column *first run*: what the checks said before any strengthening (`caught` = VIOLATION by the property's own check, "
       "`AE` = ANALYSIS-ERROR only, `-` = silent, `other` = VIOLATION only under another property). Column *strengthened* "
       "names the general rule or representative that was added because of it.", "",
       "| id | property | needs to manifest | reported by (property: rules) | first run | strengthened | own check |",
       "|----|----------|-------------------|-------------------------------|-----------|--------------|-----------|"]
for r in rows:
    out.append("| " + " | ".join(x.replace("|", "/") for x in r) + " |")
open(os.path.join(HERE, "seeded", "README.md"), "w").write("\n".join(out) + "\n")
print(f"{len(rows)} seeded changes, {own} caught by their own property's check")
