#!/usr/bin/env python3
"""Confirm seeded changes: in a scratch git worktree of /repo (outside /repo and /verif, removed afterwards) check
that (1) the demonstration passes on the unchanged source, (2) fails with the patch, (3) the pinned test suite
still passes with the patch.  Usage: verify_seeded.py <dir with patch.diff and demo.py> [...]  (runs in parallel)."""
import concurrent.futures as cf
import json
import os
import shutil
import subprocess
import sys
import tempfile

PY = "/venv/bin/python"


def sh(cmd, cwd, env=None, timeout=1800):
    r = subprocess.run(cmd, cwd=cwd, env=env, capture_output=True, text=True, timeout=timeout)
    return r.returncode, (r.stdout + r.stderr)[-1500:]


def verify(d):
    d = os.path.abspath(d)
    patch, demo = os.path.join(d, "patch.diff"), os.path.join(d, "demo.py")
    res = {"dir": d}
    if not (os.path.exists(patch) and os.path.exists(demo)):
        res["error"] = "patch.diff or demo.py missing"
        return res
    wt = tempfile.mkdtemp(prefix="kv_verify_")
    os.rmdir(wt)
    try:
        rc, out = sh(["git", "-C", "/repo", "worktree", "add", "-q", "--detach", wt, "HEAD"], "/")
        if rc:
            res["error"] = "worktree: " + out
            return res
        env = dict(os.environ, PYTHONPATH=wt, PYTHONDONTWRITEBYTECODE="1")
        shutil.copy(demo, os.path.join(wt, "_demo.py"))
        rc, out = sh([PY, "_demo.py"], wt, env, 900)
        res["demo_clean_exit"] = rc
        if rc:
            res["demo_clean_tail"] = out[-400:]
        rc, out = sh(["git", "apply", patch], wt)
        if rc:
            res["error"] = "patch does not apply to current /repo HEAD: " + out[-300:]
            return res
        rc, out = sh([PY, "_demo.py"], wt, env, 900)
        res["demo_patched_exit"] = rc
        res["demo_patched_tail"] = out[-300:]
        if os.environ.get("VERIFY_NO_SUITE") == "1":     # demos only (re-check after a fix commit; the suite was run when the change was stored)
            res["confirmed"] = res["demo_clean_exit"] == 0 and res["demo_patched_exit"] != 0
            return res
        rc, out = sh([PY, "-m", "pytest", "-q", "-p", "no:cacheprovider", "--timeout=900", "tests"], wt, env, 3000)
        res["suite_exit"] = rc
        res["suite_tail"] = out.strip().splitlines()[-1] if out.strip() else ""
        res["confirmed"] = res["demo_clean_exit"] == 0 and res["demo_patched_exit"] != 0 and rc == 0
        return res
    finally:
        subprocess.run(["git", "-C", "/repo", "worktree", "remove", "--force", wt], capture_output=True)
        shutil.rmtree(wt, ignore_errors=True)


if __name__ == "__main__":
    dirs = sys.argv[1:]
    with cf.ThreadPoolExecutor(max_workers=8) as ex:
        for r in ex.map(verify, dirs):
            print(json.dumps(r))
            sys.stdout.flush()
