#!/usr/bin/env python3
"""Regenerate /verif/MANIFEST.json from the rule modules (run with python3-vt from /verif)."""
import json
import os
import sys

HERE = os.path.dirname(os.path.dirname(os.path.abspath(__file__)))
sys.path.insert(0, HERE)

from kverif.rules import PROPERTY_INFO  # noqa: E402
from kverif.core import RULES  # noqa: E402

ALL = [f"C{n:02d}" for n in range(1, 21)]
BASELINE = ("cd /repo && /venv/bin/python -m pytest -ra -q -p no:cacheprovider --timeout=900 "
            "--continue-on-collection-errors")

PENDING_REASON = {}

checks = []
for pid in ALL:
    info = PROPERTY_INFO.get(pid)
    if not info:
        continue
    rules = sorted(r.id for r in RULES.values() if pid in r.props)
    checks.append({
        "property_id": pid,
        "quick_cmd": f"python3-vt -m kverif check {pid} --tier quick",
        "thorough_cmd": f"python3-vt -m kverif check {pid} --tier thorough",
        "evidence_file": f"/verif/evidence/{pid}.json",
        "replay_cmd_template": "python3-vt -m kverif replay {path}",
        "engine": "kverif",
        "level_claimed": {
            "category": "other",
            "text": info["explanation"],
            "design_ref": f"DESIGN.md section 4, {pid}",
        },
        "level_note": "Trusted: CPython semantics of the analysed statement kinds, sympy/numpy/traitlets/ganja.js, and "
                      "the cross-property assumptions named in the evidence file. Rules: " + ", ".join(rules) +
                      ". Unrecognised idioms are reported as ANALYSIS-ERROR (exit 2), never as a pass.",
        "technique": "static analysis (stdlib ast, no execution of kingdon): " + info["technique"],
    })

not_applicable = [
    {"property_id": pid, "reason": PENDING_REASON.get(pid, "no sound static rule implemented for this property yet; "
                                                         "not claimed (see DESIGN.md section 4 for the planned clause-level rules)")}
    for pid in ALL if pid not in PROPERTY_INFO
]

manifest = {
    "version": 1,
    "setup_cmd": "python3-vt -m kverif selfcheck",
    "hooks": {
        "guard": "KINGDON_VERIF",
        "enable": "none needed: the checks parse /repo/kingdon with the stdlib ast module and never run it; no hook "
                  "or instrumentation was added to the repository",
        "baseline_off_cmd": BASELINE,
        "source_commits": [],
        "add_only": True,
    },
    "engines": [{
        "name": "kverif",
        "path": "/verif/kverif",
        "serves_properties": [c["property_id"] for c in checks],
        "kind_free_text": "repository-specific static analyser: resolved class surfaces and operator registry, guarded "
                          "value-flow, decision tables over exact finite partitions, bit-serial automaton decider, "
                          "operator-tree and rational normal forms, order/position provenance, typestate on the cache",
    }],
    "checks": checks,
    "not_applicable": not_applicable,
    "notes": "Static analysis only (see DESIGN.md). Exit 0 = held on everything analysed (KNOWN-FINDING lines for "
             "recorded defects), 1 = VIOLATION, 2 = ANALYSIS-ERROR (unknown idiom / vanished anchor). Genuine defects "
             "found: known_findings.json; fix: commits in /repo are listed there as 'fixed'.",
}
with open(os.path.join(HERE, "MANIFEST.json"), "w") as fh:
    json.dump(manifest, fh, indent=1)
print(f"MANIFEST.json: {len(checks)} checks, {len(not_applicable)} not_applicable")
