#!/usr/bin/env python3
"""Three-way re-base of stored patches: find the /repo commit a patch applies to cleanly, commit it there in a scratch clone
(outside /repo and /verif, removed afterwards) and cherry-pick that commit onto HEAD; git merges changes that touch different
lines.  The patch is rewritten as a plain diff against HEAD.  Conflicts are listed for a manual edit.

Usage: rebase3.py <dir> [...]
"""
import os
import shutil
import subprocess
import sys
import tempfile


def sh(cmd, cwd=None, check=False):
    return subprocess.run(cmd, cwd=cwd, shell=isinstance(cmd, str), capture_output=True, text=True, check=check)


tmp = tempfile.mkdtemp(prefix="kverif_rb3_")
failed = []
try:
    clone = os.path.join(tmp, "clone")
    sh(["git", "clone", "-q", "/repo", clone], check=True)
    sh("git config user.email v@v && git config user.name v", cwd=clone)
    head = sh("git rev-parse HEAD", cwd=clone).stdout.strip()
    commits = sh("git rev-list HEAD -n 40", cwd=clone).stdout.split()
    for d in sys.argv[1:]:
        d = d.rstrip("/")
        pf = os.path.abspath(os.path.join(d, "patch.diff"))
        base = None
        for c in commits:
            sh(f"git checkout -q -f {c} && git clean -qfd", cwd=clone)
            if sh(["patch", "-p1", "--dry-run", "-s", "-F0", "-i", pf], cwd=clone).returncode == 0:
                base = c
                break
        if base is None:
            failed.append((d, "applies to none of the last 40 commits"))
            continue
        if base == head:
            continue
        sh(["patch", "-p1", "-s", "-F0", "--no-backup-if-mismatch", "-i", pf], cwd=clone, check=True)
        sh("git add -A && git commit -qm stored", cwd=clone, check=True)
        picked = sh("git rev-parse HEAD", cwd=clone).stdout.strip()
        sh(f"git checkout -q -f {head}", cwd=clone)
        r = sh(f"git cherry-pick -n {picked}", cwd=clone)
        if r.returncode != 0:
            failed.append((d, "conflict: " + (r.stdout + r.stderr).strip().splitlines()[-1][:120]))
            sh("git cherry-pick --abort; git reset -q --hard", cwd=clone)
            continue
        out = sh(f"git diff --cached {head} -- kingdon", cwd=clone).stdout
        sh("git reset -q --hard", cwd=clone)
        open(pf, "w").write(out)
        print("rebased", d, "from", base[:7])
finally:
    shutil.rmtree(tmp, ignore_errors=True)
for d, why in failed:
    print("FAILED", d, why)
sys.exit(1 if failed else 0)
