#!/usr/bin/env python3
"""Keep a confirmed seeded change under /verif/seeded/<id>/ and record which checks report it.

For each <src dir> (patch.diff, demo.py, notes.md) whose verification record (from verify_seeded.py, JSON lines file)
says `confirmed`, copy the files, then run the registered quick checks against /repo with the patch applied
(`git -C /repo apply`), undo it straight afterwards (`git -C /repo checkout -- .`), and write meta.json.

Usage: store_seeded.py <verification.jsonl> [...]
"""
import json
import os
import re
import shutil
import subprocess
import sys

HERE = os.path.dirname(os.path.dirname(os.path.abspath(__file__)))
PROPS = [f"C{n:02d}" for n in range(1, 21)]


def run_checks():
    res = {}
    for p in PROPS:
        out = subprocess.run(["python3-vt", "-c",
                              "import sys; sys.path.insert(0, %r); from kverif.cli import run_check; "
                              "sys.exit(run_check(%r, 'quick', write=False))" % (HERE, p)],
                             capture_output=True, text=True, cwd=HERE)
        lines = out.stdout.splitlines()
        rules = sorted({m.group(1) for l in lines for m in [re.search(r"^\s+rule=(\S+) construct=", l)] if m})
        errs = [l[:220] for l in lines if l.startswith("ANALYSIS-ERROR")]
        if out.returncode:
            res[p] = {"exit": out.returncode, "verdict": "VIOLATION" if out.returncode == 1 else "ANALYSIS-ERROR",
                      "rules": rules, "analysis_errors": errs[:3]}
    return res


def needs_of(notes):
    lines = notes.splitlines()
    for i, l in enumerate(lines):
        if re.search(r"(?i)(need|trigger|manifest)", l) and (l.strip().startswith(("**", "#", "-")) or l.strip().endswith(":")):
            head = re.sub(r"[*#]", "", l).strip()
            tail = head.split(":", 1)[1].strip() if ":" in head else ""
            body = [tail] if tail else []
            for m in lines[i + 1:]:
                if m.strip().startswith(("**", "#")) and body:
                    break
                if not m.strip():
                    if body:
                        break
                    continue
                body.append(re.sub(r"^\s*[-*]\s*", "", m).strip())
            txt = " ".join(body)
            if len(txt) > 20:
                return txt[:700]
    return "see notes.md"


def run_checks_scratch(patch):
    """The same 20 quick checks on a scratch copy of /repo/kingdon with the patch applied (KVERIF_REPO), so that many
    changes can be evaluated in parallel; equivalent to applying the patch to /repo (the checks read only kingdon/)."""
    sys.path.insert(0, os.path.join(HERE, "tools"))
    import eval_patch
    res = eval_patch.run(patch)
    if "error" in res:
        return None
    out = {}
    for p, v in res.items():
        rules = sorted({m.group(1) for l in v["violations"] for m in [re.search(r"rule=(\S+) construct=", l)] if m})
        out[p] = {"exit": v["exit"], "verdict": "VIOLATION" if v["exit"] == 1 else "ANALYSIS-ERROR", "rules": rules,
                  "analysis_errors": v["errors"][:3]}
    return out


def main():
    scratch = "--scratch" in sys.argv[1:]
    if scratch:
        sys.argv.remove("--scratch")
    records = []
    for f in sys.argv[1:]:
        for line in open(f):
            try:
                records.append(json.loads(line))
            except ValueError:
                pass
    subprocess.run(["git", "-C", "/repo", "diff", "--quiet"], check=True)   # /repo must be clean
    pending = []
    for r in records:
        src = r["dir"]
        sid = os.path.basename(src.rstrip("/"))
        if not r.get("confirmed"):
            print(f"{sid}: NOT confirmed, skipped: { {k: v for k, v in r.items() if k != 'dir'} }")
            continue
        dst = os.path.join(HERE, "seeded", sid)
        os.makedirs(dst, exist_ok=True)
        for name in ("patch.diff", "demo.py", "notes.md"):
            if os.path.exists(os.path.join(src, name)):
                shutil.copy(os.path.join(src, name), os.path.join(dst, name))
        patch = os.path.join(dst, "patch.diff")
        if scratch:
            pending.append((r, sid, dst, patch))
            continue
        ap = subprocess.run(["git", "-C", "/repo", "apply", patch], capture_output=True, text=True)
        if ap.returncode:
            print(f"{sid}: patch does not apply to /repo: {ap.stderr[:200]}")
            continue
        try:
            checks = run_checks()
        finally:
            subprocess.run(["git", "-C", "/repo", "checkout", "--", "."], check=True)
        write_meta(r, sid, dst, checks, False)
    if scratch:
        import concurrent.futures
        with concurrent.futures.ThreadPoolExecutor(max_workers=6) as ex:
            for (r, sid, dst, patch), checks in zip(pending, ex.map(lambda t: run_checks_scratch(t[3]), pending)):
                if checks is None:
                    print(f"{sid}: patch does not apply")
                    continue
                write_meta(r, sid, dst, checks, True)


def write_meta(r, sid, dst, checks, scratch):
    if True:
        notes = open(os.path.join(dst, "notes.md")).read() if os.path.exists(os.path.join(dst, "notes.md")) else ""
        prop = sid.split("_")[0]
        meta = {
            "id": sid,
            "breaks_property": prop,
            "origin": "independent sub-agent given only the property text and a private scratch worktree of /repo",
            "needs_to_manifest": needs_of(notes),
            "confirmed_by": {
                "command": "python3-vt tools/verify_seeded.py <dir> (scratch git worktree of /repo HEAD, removed afterwards)",
                "demo_exit_on_unchanged_source": r.get("demo_clean_exit"),
                "demo_exit_with_change": r.get("demo_patched_exit"),
                "demo_tail_with_change": (r.get("demo_patched_tail") or "")[-200:],
                "suite_with_change": r.get("suite_tail"),
            },
            "checks_run": ("scratch copy of /repo/kingdon with seeded/%s/patch.diff applied (KVERIF_REPO); python3-vt -m kverif check "
                           "C01..C20 --tier quick" % sid) if scratch else
                          ("git -C /repo apply seeded/%s/patch.diff; python3-vt -m kverif check C01..C20 --tier quick; "
                           "git -C /repo checkout -- ." % sid),
            "reported_by": {p: {"verdict": v["verdict"], "rules": v["rules"]} for p, v in checks.items()},
            "caught_by_own_property_check": checks.get(prop, {}).get("verdict") == "VIOLATION",
            "caught_by_any_check": any(v["verdict"] == "VIOLATION" for v in checks.values()),
        }
        with open(os.path.join(dst, "meta.json"), "w") as fh:
            json.dump(meta, fh, indent=1)
        print(f"{sid}: own={meta['caught_by_own_property_check']} any={meta['caught_by_any_check']} "
              f"{ {p: v['verdict'] + ':' + ','.join(v['rules']) for p, v in checks.items()} }")


if __name__ == "__main__":
    main()
