import itertools, functools, operator, collections, re, math  # noqa
from fractions import Fraction
from collections import Counter, defaultdict, deque, OrderedDict, namedtuple
from functools import reduce, partial, lru_cache
from itertools import chain, accumulate, groupby, starmap, product, combinations, permutations, zip_longest, islice, count, repeat, takewhile, dropwhile, compress, tee
from typing import NamedTuple
from dataclasses import dataclass, field


class Pt(NamedTuple):
    x: int
    y: int = 5


@dataclass
class Box:
    a: int
    b: list = field(default_factory=list)
    c: int = 3

    def total(self):
        return self.a + sum(self.b) + self.c

    @property
    def double(self):
        return 2 * self.a

    @classmethod
    def make(cls, n):
        return cls(n, [n, n])

    @staticmethod
    def st(n):
        return n + 1


class Acc:
    count = 0

    def __init__(self, start=0):
        self.v = start

    def add(self, n):
        self.v += n
        return self

    def __len__(self):
        return self.v

    def __bool__(self):
        return self.v > 2

    def __iter__(self):
        return iter(range(self.v))

    def __contains__(self, k):
        return k == self.v

    def __getitem__(self, i):
        return self.v * i

    def __call__(self, k):
        return self.v + k

    def __eq__(self, o):
        return isinstance(o, Acc) and o.v == self.v

    def __lt__(self, o):
        return self.v < o.v

    def __neg__(self):
        return Acc(-self.v)

    def __add__(self, o):
        return Acc(self.v + (o.v if isinstance(o, Acc) else o))

    __radd__ = __add__

    def __repr__(self):
        return f"Acc({self.v})"


def t001():
    a, *b, c = [1, 2, 3, 4, 5]
    return a, b, c

def t002():
    d = {k: v for k, v in zip("abc", range(3)) if v}
    return d, list(d), sorted(d.items(), key=lambda kv: -kv[1])

def t003():
    out = []
    for i in range(10):
        if i % 2:
            continue
        if i > 6:
            break
        out.append(i)
    else:
        out.append(-1)
    return out

def t004():
    out = []
    for i in range(3):
        out.append(i)
    else:
        out.append(99)
    return out

def t005():
    i = 0
    while i < 5:
        i += 2
    else:
        i += 100
    return i

def t006():
    try:
        x = 1 / 0
    except ZeroDivisionError as e:
        x = "zde"
    else:
        x = "none"
    finally:
        y = "fin"
    return x, y

def t007():
    def gen(n):
        for i in range(n):
            yield i * i
    return list(gen(4)), sum(gen(3)), max(gen(5))

def t008():
    g = (i for i in range(5))
    a = next(g)
    b = next(g)
    rest = list(g)
    return a, b, rest, next(g, "done")

def t009():
    fs = [lambda x, i=i: x + i for i in range(3)]
    gs = [lambda x: x + i for i in range(3)]
    return [f(10) for f in fs], [g(10) for g in gs]

def t010():
    return reduce(operator.xor, [1, 2, 4, 7], 0), reduce(lambda a, b: a * b, range(1, 6))

def t011():
    return list(accumulate([1, 2, 3, 4])), list(accumulate([1, 2, 3], operator.mul)), list(chain([1], (2, 3), "ab"))

def t012():
    return [(k, list(g)) for k, g in groupby([1, 1, 2, 3, 3, 3, 1])], [(k, len(list(g))) for k, g in groupby("aabbbc")]

def t013():
    return list(starmap(pow, [(2, 3), (3, 2)])), list(product([1, 2], "ab")), list(combinations(range(4), 2)), list(permutations([1, 2, 3], 2))

def t014():
    return list(zip_longest([1, 2, 3], "ab", fillvalue=None)), list(islice(count(5), 3)), list(islice(range(10), 2, 8, 3)), list(repeat(7, 3))

def t015():
    return list(takewhile(lambda x: x < 3, [1, 2, 3, 1])), list(dropwhile(lambda x: x < 3, [1, 2, 3, 1])), list(compress("abcd", [1, 0, 1, 0]))

def t016():
    c = Counter("abracadabra")
    return c["a"], c.most_common(2), sorted(c), c["z"], sum(c.values())

def t017():
    d = defaultdict(list)
    for k, v in [("a", 1), ("b", 2), ("a", 3)]:
        d[k].append(v)
    return dict(d), "z" in d, d["z"], "z" in d

def t018():
    q = deque([1, 2, 3], maxlen=None)
    q.appendleft(0); q.append(4); q.rotate(1)
    return list(q), q.popleft(), q.pop()

def t019():
    p = Pt(1)
    q = p._replace(y=9)
    return p, q, p.x + q.y, tuple(p), p._asdict() == {"x": 1, "y": 5}, len(p), p[1], p == (1, 5)

def t020():
    b = Box(1)
    c = Box.make(2)
    b.b.append(4)
    return b.total(), c.total(), b.double, Box.st(4), b == Box(1, [4]), c.b, repr(Box(1)) == "Box(a=1, b=[], c=3)"

def t021():
    a = Acc(3)
    return len(a), bool(a), bool(Acc(1)), list(a), 3 in a, 4 in a, a[2], a(5), a == Acc(3), a != Acc(4), Acc(1) < Acc(2), (-a).v, (a + 1).v, (1 + a).v, sum([Acc(1), Acc(2)]).v

def t022():
    s = "Hello, World"
    return s.lower(), s.split(", "), s[::-1], s.startswith("He"), s.replace("l", "L", 2), s.find("W"), s.index("o"), s.count("l"), s.center(16, "*"), s.zfill(14), s.partition(","), s.rsplit("o", 1), "-".join(["a", "b"]), s.isalpha(), "abc".upper().isupper(), s.strip("Hd"), s.title(), s.encode() == b"Hello, World"

def t023():
    x = 3.14159
    n = 42
    return f"{x:.2f}", f"{n:05d}", f"{n:x}", f"{n:>6}|", f"{n!r:<4}|", f"{x!s}", f"{'a' 'b'}", f"{n:{4}}", "%d-%s" % (n, "z"), "{} {}".format(1, 2), "{a}{b}".format(a=1, b=2), f"{n=}", f"{x:g}", f"{1234567.25:g}", f"{n:,}", f"{0.5:%}", f"{n:b}", f"{-n:+d}", f"{n:e}"

def t024():
    a = {1, 2, 3}; b = {2, 3, 4}
    return a & b, a | b, a - b, a ^ b, a <= b, a.issubset({1, 2, 3, 4}), a.isdisjoint({9}), sorted(a.union([7])), len(frozenset([1, 1])), a.intersection(b, {3})

def t025():
    d = {"a": 1}
    d.setdefault("b", []).append(2)
    d.update(c=3, **{"e": 5})
    x = d.pop("a")
    y = d.pop("zz", None)
    d2 = {**d, "f": 6}
    return d, x, y, d2, list(d2.keys())[-1], d.get("q", 7), dict.fromkeys("ab", 0), {**{"a": 1}, **{"a": 2}}

def t026():
    l = [3, 1, 2]
    l.sort(reverse=True)
    m = sorted(l, key=lambda v: -v, reverse=True)
    l.insert(0, 9); l.extend([7]); l.remove(1); idx = l.index(7)
    l2 = l[:]; l2.reverse()
    del l[0]
    return l, m, idx, l2, l * 2, [0] * 3, l + [1], l.count(3), l.pop(), l.pop(0), l, list(reversed([1, 2])), [1, 2, 3][-2:], [1, 2, 3, 4][::2], [1, 2, 3, 4][1::2]

def t027():
    x = 5
    def inner():
        nonlocal x
        x += 1
        return x
    inner(); inner()
    return x

def t028():
    total = 0
    for i, (a, b) in enumerate(zip([1, 2], [3, 4]), start=1):
        total += i * (a + b)
    return total

def t029():
    return any(x > 2 for x in [1, 2, 3]), all([]), any([]), min([3, 1, 2], key=lambda v: -v), max("abc"), min(3, 1, 2), max([], default=0), sum([[1], [2]], []), abs(-3.5), round(2.5), round(3.14159, 2), divmod(7, 2), pow(2, 10), pow(2, -1), 7 // 2, -7 // 2, 7 % 3, -7 % 3, 2 ** 0.5 == math.sqrt(2), int("ff", 16), int(3.9), float("1e3"), bool(""), bool([0]), str(1.0), repr("a"), hex(255), bin(5), oct(8), chr(97), ord("a")

def t030():
    return isinstance(True, int), isinstance(1, (str, int)), isinstance(1.0, float), type(1) is int, type("a") == str, issubclass(bool, int), callable(len), callable(3), hasattr([], "append"), getattr(Box(1), "c"), getattr(Box(1), "zz", "dflt"), isinstance(Pt(1), tuple), isinstance(Fraction(1, 2), Fraction)

def t031():
    return Fraction(1, 3) + Fraction(1, 6), Fraction(3, 4) * 2, 1 / Fraction(2), Fraction(1, 2) == 0.5, Fraction(5).numerator, float(Fraction(1, 4)), Fraction("3/4"), Fraction(0.5), -Fraction(1, 2), abs(Fraction(-1, 2)), Fraction(1, 2) ** 2, Fraction(7, 2) // 1, int(Fraction(7, 2))

def t032():
    m = re.match(r"^e([0-9a-f]*)$", "e12f")
    return m.group(1), m.group(0), bool(re.match(r"^e\d+$", "e1x")), re.sub(r"\d", "#", "a1b22"), re.findall(r"[a-z]\d", "a1b2 c3"), re.split(r"[,;]", "a,b;c"), re.fullmatch(r"\w+", "ab_1") is not None, re.compile(r"(\d+)-(\d+)").search("x 12-34 y").groups(), re.search(r"z", "abc")

def t033():
    p = partial(pow, 2)
    q = partial(int, base=2)
    return p(5), q("101"), partial(lambda a, b, c=0: (a, b, c), 1, c=3)(2)

def t034():
    calls = []
    @lru_cache(maxsize=None)
    def fib(n):
        calls.append(n)
        return n if n < 2 else fib(n - 1) + fib(n - 2)
    return fib(10), len(calls)

def t035():
    x = [1, 2, 3]
    y = x
    y += [4]
    t = (1, 2)
    u = t
    u += (3,)
    return x, t, u, x is y, t is u

def t036():
    a = b = []
    a.append(1)
    c, d = d2, c2 = 1, 2
    return b, c, d, d2, c2

def t037():
    n = 10
    return [y for x in range(4) if x % 2 == 0 for y in (x, x * n)], {x % 3 for x in range(7)}, [[j for j in range(i)] for i in range(3)], [(i, j) for i in range(2) for j in range(i, 2)]

def t038():
    return 1 < 2 < 3, 1 < 3 < 2, 1 == 1.0 == True, "a" < "b" <= "b", (1, 2) < (1, 3), [1] == [1], None is None, not None, 0 or "x", 0 and "x", 1 and 2, [] or {} or 0, "a" if 0 else "b", 3 if [] else 4

def t039():
    if (n := len("abcd")) > 3:
        r = n * 2
    vals = [y for x in [1, 2, 3] if (y := x * 2) > 2]
    return r, vals, y

def t040():
    def f(a, b=2, *args, c, d=4, **kw):
        return a, b, args, c, d, sorted(kw.items())
    return f(1, c=3), f(1, 2, 3, 4, c=5, e=6), f(*[1, 2], **{"c": 3, "z": 0}), f(b=1, a=2, c=3)

def t041():
    try:
        try:
            raise ValueError("inner")
        except KeyError:
            r = "wrong"
        finally:
            s = "cleanup"
    except (TypeError, ValueError) as e:
        r = str(e)
    return r, s

def t042():
    def f(x):
        if x < 0:
            raise ValueError("neg")
        return x
    out = []
    for v in (1, -1, 2):
        try:
            out.append(f(v))
        except ValueError:
            out.append("err")
            continue
    return out

def t043():
    class Ctx:
        def __init__(self): self.log = []
        def __enter__(self): self.log.append("in"); return self
        def __exit__(self, *a): self.log.append("out"); return False
    c = Ctx()
    with c as cc:
        cc.log.append("body")
    return c.log

def t044():
    x = [1, 2, 3, 4, 5]
    x[1:3] = [9]
    del x[-1]
    x[0], x[-1] = x[-1], x[0]
    return x

def t045():
    m = {(1, 2): "a", (2, 1): "b"}
    return m[1, 2], m[(2, 1)], (1, 2) in m, [k[0] for k in m], {v: k for k, v in m.items()}

def t046():
    it = iter([1, 2, 3, 4])
    pairs = list(zip(it, it))
    a, b = tee([1, 2, 3])
    return pairs, list(a), list(b), list(map(lambda p, q: p * q, [1, 2], [3, 4])), list(filter(None, [0, 1, "", "a"])), list(enumerate("ab")), list(zip(*[(1, 2), (3, 4)])), list(range(5, 0, -2)), list(map(str, range(3)))

def t047():
    s = 0
    for i in range(3):
        for j in range(3):
            if j == 2:
                break
            if i == 1:
                continue
            s += 10 * i + j
    return s

def t048():
    o = OrderedDict()
    o["b"] = 1; o["a"] = 2
    o.move_to_end("b")
    return list(o), o.popitem(), list(o)

def t049():
    T = namedtuple("T", "a b")
    t = T(1, b=2)
    return t.a, t.b, t._fields, T._make([3, 4]), t + (3,)

def t050():
    def outer():
        funcs = {}
        def reg(name):
            def deco(f):
                funcs[name] = f
                return f
            return deco
        @reg("sq")
        def sq(x): return x * x
        @reg("cu")
        def cu(x): return x ** 3
        return {k: f(3) for k, f in funcs.items()}
    return outer()

def t051():
    x = 10
    y = x if x > 5 else -x
    z = (lambda: x + 1)()
    w = [x for x in range(3)]
    return x, y, z, w

def t052():
    a = [[0] * 2 for _ in range(2)]
    b = [[0] * 2] * 2
    a[0][0] = 1; b[0][0] = 1
    return a, b

def t053():
    return sorted([(2, "b"), (1, "z"), (2, "a")]), sorted("bca", reverse=True), sorted([3, 1, 2], key=lambda v: v % 3), sorted({"b": 1, "a": 2}), sorted([(1, "b"), (1, "a")], key=operator.itemgetter(0)), sorted(["bb", "a", "ccc"], key=len)

def t054():
    return operator.add(1, 2), operator.neg(3), operator.itemgetter(1)([5, 6]), operator.itemgetter(0, 2)("abc"), operator.attrgetter("x")(Pt(7)), operator.mul(3, 4), operator.truediv(1, 2), operator.or_(1, 2), operator.and_(3, 2), operator.contains([1], 1), operator.index(5), operator.methodcaller("upper")("a"), operator.not_(0), operator.eq(1, 1), operator.lt(1, 2)

def t055():
    n = 0b1011
    return n.bit_length(), bin(n).count("1"), n >> 1, n << 2, n & ~1, n ^ 0b1111, -n, ~n, (n).to_bytes(1, "big") == b"\x0b", int.from_bytes(b"\x01\x00", "big"), 5 .bit_length(), format(n, "b"), format(n, "04b").count("1")

def t056():
    def rec(n, acc=()):
        return acc if n == 0 else rec(n - 1, acc + (n,))
    return rec(4)

def t057():
    stack = [(iter([1, [2, [3]], 4]), 0)]
    out = []
    while stack:
        it, depth = stack[-1]
        for item in it:
            if isinstance(item, list):
                stack.append((iter(item), depth + 1))
                break
            out.append((item, depth))
        else:
            stack.pop()
    return out

def t058():
    class A:
        kind = "a"
        def who(self): return "A" + self.kind
        def both(self): return self.who()
    class B(A):
        kind = "b"
        def who(self): return "B" + super().who()
    return A().both(), B().both(), B.kind, isinstance(B(), A), B.__name__, type(B()).__name__, B().__class__ is B

def t059():
    x = [1, 2, 3]
    def mut(l): l.append(4); l = [0]; return l
    r = mut(x)
    return x, r

def t060():
    a, b = 1, 2
    a, b = b, a + b
    (c, d), e = (3, 4), 5
    [f, [g, h]] = [6, [7, 8]]
    return a, b, c, d, e, f, g, h

def t061():
    return math.floor(2.7), math.ceil(2.1), math.factorial(5), math.comb(5, 2), math.gcd(12, 18), math.prod([1, 2, 3]), math.isclose(0.1 + 0.2, 0.3), math.pi > 3, math.inf > 1e308, math.copysign(1, -0.0), math.log2(8), math.hypot(3, 4)

def t062():
    gen = (x for x in range(3))
    return 1 in gen, list(gen)

def t063():
    d = {"x": 1, "y": 2}
    def f(x, y): return x - y
    ks, vs = zip(*d.items())
    return f(**d), f(*d.values()), ks, vs, [*d], {*d}, (*d, "z"), [*range(2), *"ab"]

def t064():
    s = "a,b,,c"
    parts = [p for p in s.split(",") if p]
    return parts, s.split(",", 1), "  x ".strip(), "x".join("abc"), "abc"[1], "abc"[-1:], "abc" * 2, "b" in "abc", len("héllo"), "a\tb".expandtabs(4), "%5.2f|%-3s|" % (3.14159, "x"), "{:>4}|{:<4}|{:^5}".format(1, 2, 3)

def t065():
    acc = []
    for k, grp in groupby(sorted(["e12", "e1", "e23", "e", "e2"], key=len), key=len):
        acc.append((k, sorted(grp)))
    return acc

def t066():
    def f():
        try:
            return "try"
        finally:
            pass
    def g():
        for i in range(3):
            try:
                if i == 1:
                    break
            finally:
                last = i
        return last
    return f(), g()

def t067():
    global _G067
    _G067 = 5
    def h(): return _G067 + 1
    return h()

def t068():
    x = 0
    x += 1; x *= 5; x -= 1; x //= 2; x **= 2; x %= 3; x |= 4; x &= 6; x ^= 1; x <<= 2; x >>= 1
    y = 1.0; y /= 4
    return x, y

def t069():
    assert 1 + 1 == 2, "fine"
    try:
        assert False, "boom"
    except AssertionError as e:
        return str(e)

def t070():
    def kw_only(*, a, b=2): return a + b
    def pos_only(a, b, /, c): return a + b + c
    return kw_only(a=1), pos_only(1, 2, c=3), (lambda *a, **k: (a, k))(1, x=2)
