import operator
from functools import reduce, cached_property, partial
from itertools import product, combinations, chain
from dataclasses import dataclass, field, replace, fields
from collections import Counter, defaultdict
from typing import NamedTuple


class MyError(Exception):
    pass


class SubError(MyError):
    pass


class Table(dict):
    def __init__(self, factory):
        super().__init__()
        self.factory = factory
        self.misses = 0

    def __missing__(self, key):
        self.misses += 1
        v = self[key] = self.factory(key)
        return v


@dataclass
class Cfg:
    p: int = 0
    q: int = 0
    sig: list = None
    d: int = field(init=False, default=0)
    tags: dict = field(default_factory=dict, compare=False, repr=False)

    def __post_init__(self):
        if self.sig is not None:
            c = Counter(self.sig)
            self.p, self.q = c[1], c[-1]
        else:
            self.sig = [1] * self.p + [-1] * self.q
        self.d = self.p + self.q


class Vec:
    def __new__(cls, keys=(), values=()):
        obj = object.__new__(cls)
        obj._k = tuple(keys)
        obj._v = list(values)
        return obj

    @classmethod
    def fromitems(cls, items):
        ks, vs = zip(*items) if items else ((), ())
        return cls(ks, vs)

    def keys(self): return self._k
    def values(self): return self._v
    def items(self): return zip(self._k, self._v)
    def __len__(self): return len(self._v)
    def __bool__(self): return bool(self._v)
    def __iter__(self): return iter(self._v)
    def __contains__(self, k): return k in self._k

    @property
    def grades(self):
        return tuple(sorted({bin(k).count("1") for k in self._k}))

    @cached_property
    def tn(self):
        return int("".join("1" if i in self._k else "0" for i in range(8)), 2)

    def map(self, f):
        return Vec(self._k, [f(v) for v in self._v])

    def __getattr__(self, name):
        if not name.startswith("e"):
            raise AttributeError(name)
        k = int(name[1:] or "0")
        return self._v[self._k.index(k)] if k in self._k else 0

    def __neg__(self): return self.map(operator.neg)
    def __add__(self, o):
        d = dict(self.items())
        for k, v in o.items():
            d[k] = d.get(k, 0) + v
        return Vec.fromitems(sorted(d.items()))
    __radd__ = __add__
    def __eq__(self, o): return isinstance(o, Vec) and dict(self.items()) == dict(o.items())
    def __getitem__(self, i): return self.map(lambda v: v[i])


def u001():
    t = Table(lambda k: k[0] * 10 + k[1])
    a = t[1, 2]; b = t[1, 2]; c = t.get((3, 4)); d = (3, 4) in t; e = t[3, 4]
    return a, b, c, d, e, t.misses, sorted(t), len(t), dict(t)

def u002():
    c = Cfg(2, 1)
    d = Cfg(sig=[1, -1, -1, 0])
    e = replace(c, q=3)
    return c.sig, c.d, d.p, d.q, d.d, e.sig, e.d, c == Cfg(2, 1), c == e, [f.name for f in fields(c)], c.tags is not Cfg(2, 1).tags

def u003():
    v = Vec((1, 2, 4), [10, 20, 30])
    w = Vec.fromitems([(2, 5), (7, 1)])
    s = v + w
    return v.e1, v.e4, v.e3, len(v), bool(Vec()), list(v), 2 in v, 3 in v, v.grades, v.tn, s.keys(), s.values(), (-v).values(), sum([v, w]).keys() if False else None, v == Vec((4, 2, 1), [30, 20, 10]), hasattr(v, "foo"), hasattr(v, "e9"), getattr(v, "e2")

def u004():
    def f(n):
        if n > 2:
            raise SubError("big")
        if n < 0:
            raise KeyError(n)
        return 1 / n
    out = []
    for n in (1, 3, 0, -1):
        try:
            out.append(f(n))
        except MyError:
            out.append("my")
        except ArithmeticError:
            out.append("arith")
        except LookupError:
            out.append("lookup")
    return out

def u005():
    def gen():
        yield 1
        yield from (2, 3)
        for i in range(2):
            yield i
            if i == 0:
                continue
            return
        yield 99
    return list(gen())

def u006():
    log = []
    def gen():
        try:
            yield 1
            yield 2
        finally:
            log.append("closed")
    for x in gen():
        log.append(x)
    return log

def u007():
    res = {}
    for (ka, va), (kb, vb) in product({1: "a", 2: "b"}.items(), {4: "c"}.items()):
        k = ka ^ kb
        if k in res:
            res[k] += va + vb
        else:
            res[k] = va + vb
    return res

def u008():
    keys = (4, 1, 2)
    order = sorted(range(len(keys)), key=keys.__getitem__)
    inv = {k: i for i, k in enumerate(keys)}
    return order, inv, tuple(keys[i] for i in order), max(inv, key=inv.get), sorted(inv.items(), key=lambda kv: kv[1], reverse=True)

def u009():
    src = "def f(a, b):\n    [x, y] = a\n    return [x*b, y+b]\n"
    ns = {}
    exec(compile(src, "<gen>", "exec"), {"k": 1}, ns)
    return sorted(ns), ns["f"]([2, 3], 4)

def u010():
    name = "gp"
    keys_in = ((1, 2), (4,))
    fn = f'{name}_{"_x_".join("".join(str(k) for k in ks) for ks in keys_in)}'
    args = ", ".join(f"a{i}" for i in range(2))
    body = f"    return [{', '.join(f'a0[{i}]*a1[0]' for i in range(2))},]"
    return fn, f"def {fn}({args}):\n{body}"

def u011():
    d = defaultdict(int)
    for ch in "mississippi":
        d[ch] += 1
    groups = defaultdict(list)
    for k, v in d.items():
        groups[v].append(k)
    return dict(d), {k: sorted(v) for k, v in groups.items()}


def u013():
    def f(x, acc=[]):
        acc.append(x)
        return acc
    a = f(1); b = f(2)
    return a, b, a is b

def u014():
    x = [1, 2, 3]
    y = x[:]
    z = list(x)
    w = x
    x.append(4)
    t = tuple(x)
    return y, z, w, t, x is w, y is x

def u015():
    a = {"k": [1]}
    b = dict(a)
    c = {**a}
    b["k"].append(2)
    b["j"] = 0
    return a, c, sorted(b)

def u016():
    n = 5
    total = 0
    i = 0
    while True:
        i += 1
        if i % 2:
            continue
        total += i
        if i >= n:
            break
    return total, i

def u017():
    items = [("b", 2), ("a", 2), ("c", 1)]
    return sorted(items, key=lambda kv: kv[1]), sorted(items, key=lambda kv: (-kv[1], kv[0])), min(items, key=lambda kv: kv[1]), max(items, key=lambda kv: kv[1])

def u018():
    s = set()
    out = []
    for x in [3, 1, 3, 2, 1]:
        if x not in s:
            s.add(x)
            out.append(x)
    return out, sorted(s), len(s), s == {1, 2, 3}, s.pop() in (1, 2, 3)

def u019():
    def apply(f, *a, **k): return f(*a, **k)
    return apply(lambda x, y=1: x - y, 5), apply(lambda x, y=1: x - y, 5, y=2), apply(max, 1, 2), apply(sorted, [2, 1], reverse=True), apply(dict, a=1)

def u020():
    x = 7
    r1 = "pos" if x > 0 else "neg" if x < 0 else "zero"
    r2 = x > 5 and x < 10 and "mid"
    r3 = None or [] or "last"
    r4 = not (x == 7 or 1 / 0)
    return r1, r2, r3, r4

def u021():
    return [i // 2 for i in (-3, 3)], [i % 4 for i in (-3, 3)], 7 / 2, 2 ** -1, (-8) ** (1 / 3) == (-8) ** (1 / 3), 1e3, 0.1 + 0.2 == 0.3, int(-3.7), round(-2.5), 10 ** 20, 3 * "ab", 5 & 3 | 8 ^ 2, 1 << 10 >> 3, ~5, -(-3), +True, True + True

def u022():
    a = (1, 2, 3)
    b = a + (4,)
    c = a * 2
    return b, c, a[0], a[-1], a[1:], a.index(2), a.count(1), len(a), 2 in a, tuple(reversed(a)), a < b, hash(a) == hash((1, 2, 3)), max(a), sum(a)

def u023():
    rows = [[1, 2], [3, 4]]
    t = list(zip(*rows))
    flat = [x for r in rows for x in r]
    flat2 = list(chain.from_iterable(rows))
    return t, flat, flat2, [sum(r) for r in rows], [list(r) for r in t]

def u024():
    def outer(n):
        def inner(m):
            return n + m
        return inner
    adders = [outer(i) for i in range(3)]
    return [f(10) for f in adders]

def u025():
    v = Vec((1, 2), [[1, 2, 3], [4, 5, 6]])
    return v[0].values(), v[1:].values(), v[::2].values()

def u026():
    memo = {}
    def fib(n):
        if n in memo: return memo[n]
        r = n if n < 2 else fib(n - 1) + fib(n - 2)
        memo[n] = r
        return r
    return fib(15), len(memo)

def u027():
    text = "e12"
    k = 0
    for ch in text[1:]:
        k |= 1 << (int(ch, 16) - 1)
    swaps = 0
    arr = [3, 1, 2]
    for i in range(len(arr)):
        for j in range(len(arr) - 1 - i):
            if arr[j] > arr[j + 1]:
                arr[j], arr[j + 1] = arr[j + 1], arr[j]
                swaps += 1
    return k, arr, swaps

def u028():
    words = ["a", "bb", "a", "ccc"]
    c = Counter(words)
    c.update(["bb"])
    return c["bb"], sorted(c.items()), c.most_common(1), list(c.elements()).count("a"), dict(c - Counter(a=1)), +c == c

def u029():
    x = None
    y = x if x is not None else []
    y.append(1)
    z = x or "dflt"
    def f(a=None):
        a = a if a is not None else {}
        a["k"] = 1
        return a
    return y, z, f(), f({"j": 2})

def u030():
    vals = [0.0, -0.0, 1, True, None, "", "0", [], [0], (), {}, {0}, 0j]
    return [bool(v) for v in vals], [v for v in vals if v], all([1, "a"]), any([0, ""])
