#!/usr/bin/env python3
"""Regression run over /verif/seeded: every kept breaking change must still be reported by its own property's check.

Each patch is applied to a scratch copy of /repo/kingdon (outside /repo and /verif, removed afterwards) and the quick
check of the property it was written against is run on it with KVERIF_REPO (all 20 with --all).  Exit 1 if a change
is no longer reported as VIOLATION by its own check, or no longer applies.  Development tool; the registered checks
always analyse /repo itself, and meta.json (written by store_seeded.py from runs on /repo) is not touched.

Usage: python3-vt tools/recheck_seeded.py [--all] [<id> ...]
"""
import concurrent.futures
import glob
import os
import shutil
import subprocess
import sys
import tempfile

HERE = os.path.dirname(os.path.dirname(os.path.abspath(__file__)))
PROPS = [f"C{n:02d}" for n in range(1, 21)]


def run(sid, all_props):
    patch = os.path.join(HERE, "seeded", sid, "patch.diff")
    tmp = tempfile.mkdtemp(prefix="kverif_re_")
    try:
        dst = os.path.join(tmp, "repo")
        os.makedirs(dst)
        shutil.copytree("/repo/kingdon", os.path.join(dst, "kingdon"), ignore=shutil.ignore_patterns("__pycache__"))
        r = subprocess.run(["patch", "-p1", "-s", "-F0", "-d", dst, "-i", patch], capture_output=True, text=True)
        if r.returncode != 0:
            return sid, None, "patch does not apply"
        env = dict(os.environ, KVERIF_REPO=dst)
        own = sid.split("_")[0]
        res = {}
        for p in (PROPS if all_props else [own]):
            out = subprocess.run(["python3-vt", "-c",
                                  "import sys; sys.path.insert(0, %r); from kverif.cli import run_check; "
                                  "sys.exit(run_check(%r, 'quick', write=False))" % (HERE, p)],
                                 capture_output=True, text=True, env=env, cwd=HERE)
            res[p] = out.returncode
        return sid, res, None
    finally:
        shutil.rmtree(tmp, ignore_errors=True)


def main():
    args = [a for a in sys.argv[1:] if a != "--all"]
    all_props = "--all" in sys.argv[1:]
    ids = args or sorted(os.path.basename(os.path.dirname(p)) for p in glob.glob(os.path.join(HERE, "seeded", "C*", "patch.diff")))
    bad = 0
    with concurrent.futures.ThreadPoolExecutor(max_workers=8) as ex:
        for sid, res, err in ex.map(lambda i: run(i, all_props), ids):
            own = sid.split("_")[0]
            if err:
                bad += 1
                print(f"{sid}: {err}")
            elif res.get(own) != 1:
                bad += 1
                print(f"{sid}: own check exit={res.get(own)} (expected 1 = VIOLATION) {res if all_props else ''}")
    print(f"{len(ids)} seeded changes rechecked, {bad} not reported by their own property's check")
    return 1 if bad else 0


if __name__ == "__main__":
    sys.exit(main())
