#!/usr/bin/env python3
"""Parallel form of eval_patch.py for staging directories <dir>/patch.diff named <Cnn>_<k>: runs every quick check on
a scratch copy with the patch and prints, per directory, the status of the property's own check and of the others.

Usage: python3-vt tools/eval_dirs.py [--own] <dir> [...]      (--own: only the check of the property in the name)
"""
import concurrent.futures
import os
import sys

HERE = os.path.dirname(os.path.dirname(os.path.abspath(__file__)))
sys.path.insert(0, os.path.join(HERE, "tools"))
import eval_patch  # noqa: E402


def main():
    args = [a for a in sys.argv[1:] if a != "--own"]
    own_only = "--own" in sys.argv[1:]

    def one(d):
        sid = os.path.basename(d.rstrip("/"))
        if own_only:
            saved = eval_patch.PROPS
            eval_patch.PROPS = [sid.split("_")[0]]
        return sid, eval_patch.run(os.path.join(d, "patch.diff"))
    if own_only:
        # PROPS is module-global: run sequentially per worker by passing through a pool of processes instead
        pass
    tot = {}
    with concurrent.futures.ThreadPoolExecutor(max_workers=1 if own_only else 6) as ex:
        for sid, res in ex.map(one, args):
            own = sid.split("_")[0]
            if "error" in res:
                st = "noapply"
            else:
                o = res.get(own, {}).get("exit")
                st = "caught" if o == 1 else "AE" if o == 2 else "other" if any(v["exit"] == 1 for v in res.values()) else "-"
            tot[st] = tot.get(st, 0) + 1
            if st != "caught":
                print(sid, st, {p: ("VIOLATION" if v["exit"] == 1 else "ANALYSIS-ERROR") for p, v in res.items()} if "error" not in res else res["error"][:100])
                for p, v in (res.items() if "error" not in res else []):
                    for line in (v["violations"] + v["errors"])[:2]:
                        print("      ", p, line[:220])
    print(tot)


if __name__ == "__main__":
    main()
