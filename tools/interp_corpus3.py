import operator
from functools import reduce, cached_property, partialmethod, total_ordering
from itertools import product, combinations, chain, islice
from dataclasses import dataclass, field
from collections import namedtuple, defaultdict
from typing import NamedTuple


class Base:
    registry = {}
    scale = 2

    def __init__(self, v):
        self.v = v

    def value(self):
        return self.v * self.scale

    def describe(self):
        return f"{type(self).__name__}:{self.value()}"

    def binary(self, other, operator="add"):
        return (operator, self.v, other)

    add = __add__ = partialmethod(binary, operator="add")
    mul = __mul__ = partialmethod(binary, operator="mul")

    @property
    def twice(self):
        return 2 * self.v

    @twice.setter
    def twice(self, t):
        self.v = t // 2

    @staticmethod
    def make(v):
        return Base(v)

    @classmethod
    def named(cls, v):
        return cls(v).describe()


class Child(Base):
    scale = 3

    def __init__(self, v, extra=1):
        super().__init__(v)
        self.extra = extra

    def value(self):
        return super().value() + self.extra


@dataclass(frozen=True)
class P:
    x: int
    y: int = 0

    def __add__(self, o):
        return P(self.x + o.x, self.y + o.y)


class Rec(NamedTuple):
    keys: tuple
    func: object = None


def v001():
    b, c = Base(2), Child(2, extra=5)
    return b.value(), c.value(), b.describe(), c.describe(), Base.named(1), Child.named(1), c.twice, isinstance(c, Base), type(c) is Child

def v002():
    b = Base(4)
    b.twice = 10
    r = b.add(3), b * 2, b + 1
    return b.v, r

def v003():
    p = P(1, 2) + P(3)
    try:
        p.x = 5
        r = "mutable"
    except Exception as e:
        r = type(e).__name__
    return p, p == P(4, 2), hash(P(1)) == hash(P(1, 0)), r, {P(1): "a"}[P(1, 0)]

def v004():
    r = Rec((1, 2))
    k, f = r
    return k, f, r.keys, r[0], r._replace(func=3).func, Rec(keys=(), func=1) == ((), 1)

def v005():
    def f():
        try:
            return "try"
        finally:
            print_ = "side"
    def g():
        try:
            raise KeyError("k")
        except KeyError:
            return "handled"
        finally:
            pass
    def h():
        for i in range(3):
            try:
                continue
            finally:
                last = i
        return last
    return f(), g(), h()

def v006():
    d = {"b": 1, "a": 2, "c": 3}
    d["b"] = 9
    del d["a"]
    d["a"] = 0
    return list(d), list(d.values()), list(reversed(d)), next(iter(d)), d.popitem(), len(d)

def v007():
    l = list(range(10))
    return l[::-1][:3], l[-3:], l[2:8:3], l[8:2:-2], l[:-7], l[100:], l[-100:2], l[1::4]

def v008():
    out = []
    for i in range(3):
        out.append(lambda: i)
    comp = [lambda: j for j in range(3)]
    gen = list(lambda j=j: j for j in range(3))
    return [f() for f in out], [f() for f in comp], [f() for f in gen]

def v009():
    matrix = [[1, 2, 3], [4, 5, 6]]
    flat = [x for row in matrix for x in row if x % 2]
    tr = [[row[i] for row in matrix] for i in range(3)]
    d = {i: [j for j in range(i)] for i in range(3)}
    s = {(i + j) % 3 for i in range(3) for j in range(3)}
    return flat, tr, d, sorted(s)

def v010():
    items = [("b", 2), ("a", 2), ("c", 1), ("a", 1)]
    by_val = sorted(items, key=lambda kv: kv[1])
    by_key_then_val = sorted(sorted(items, key=lambda kv: kv[1]), key=lambda kv: kv[0])
    return by_val, by_key_then_val, sorted(items), sorted(items, reverse=True)[:2]

def v011():
    return 7 // 2, -7 // 2, 7 % -3, divmod(-7, 2), 2 ** 10, 2 ** -2, 10 / 4, 10 // 4.0, 1e16 + 1 == 1e16, 0.1 * 3, round(0.125, 2), round(2.675, 2), int(-0.9), abs(-0.0), 5 // 0.5, True + 1, 3 > 2 > 1, 1 < 2 == 2

def v012():
    s = "e12"
    return s[1:], int(s[1], 16), [int(c, base=16) for c in s[1:]], "e" + "".join(sorted("31")), f"{3:02d}", f"{'e':>3}|", s.startswith(("a", "e")), "x".join(str(k) for k in (1, 2)), "%s_%s" % ("a", 1), s[::-1], s * 0, s.replace("e", ""), format(5, "03b"), f"{0.1 + 0.2:.3f}", f"{1e-7}", f"{123456789.123}", repr(0.1), str(1e22), str(10 ** 22)

def v013():
    Pair = namedtuple("Pair", ["numer", "denom"])
    p = Pair(1, 2)
    n, d = p
    return p.numer, p[1], n + d, p == (1, 2), Pair(numer=3, denom=4), len(p), list(p), p._asdict()["denom"], isinstance(p, tuple)

def v014():
    acc = defaultdict(lambda: [0])
    for k in "abca":
        acc[k][0] += 1
    return {k: v[0] for k, v in acc.items()}, "z" in acc

def v015():
    def counter():
        n = 0
        def inc(by=1):
            nonlocal n
            n += by
            return n
        return inc
    a, b = counter(), counter()
    return a(), a(2), b(), a()

def v016():
    it = iter(range(5))
    first = next(it)
    pairs = list(zip(it, it))
    rest = list(it)
    return first, pairs, rest

def v017():
    def gen(n):
        total = 0
        for i in range(n):
            total += i
            yield total
    g = gen(5)
    a = next(g)
    b = list(islice(g, 2))
    c = list(g)
    return a, b, c, sum(gen(4)), max(gen(3)), list(gen(0))

def v018():
    data = {"x": [1, 2], "y": [3]}
    copy1 = dict(data)
    copy2 = {k: list(v) for k, v in data.items()}
    data["x"].append(9)
    return copy1["x"], copy2["x"], copy1 is data, copy1["y"] is data["y"]

def v019():
    args = (1, 2, 3)
    kw = {"sep": "-"}
    def join(*a, sep=","):
        return sep.join(map(str, a))
    return join(*args), join(*args, **kw), join(), join(*args[:1], *args[1:], sep="")

def v020():
    x = 5
    def shadow():
        x = 1
        return x
    def reads():
        return x
    return shadow(), reads(), x

def v021():
    seq = [3, 1, 2]
    a = sorted(seq); seq.sort(reverse=True)
    m = min(seq), max(seq), sum(seq), len(seq), seq.index(1), 2 in seq
    return a, seq, m, list(reversed(seq)), seq[::-1] == a

def v022():
    total = 0
    n = 0
    while n < 10:
        n += 1
        if n % 2 == 0:
            continue
        if n > 7:
            break
        total += n
    else:
        total = -1
    return total, n

def v023():
    t = (1, [2, 3], "a")
    t[1].append(4)
    u = t + (5,)
    a, (b, *c), d = t
    return t, u, a, b, c, d, hash((1, 2)) == hash((1, 2)), (1, 2) < (1, 2, 0), () == tuple()

def v024():
    keys = [1, 2, 4]
    sign = {(a, b): (-1) ** bin(a & b).count("1") for a, b in product(keys, repeat=2)}
    res = {}
    for (a, b), s in sign.items():
        res[a ^ b] = res.get(a ^ b, 0) + s
    return res, sorted(sign)[:3], reduce(operator.xor, keys), reduce(operator.or_, keys, 0), [k for k in range(8) if bin(k).count("1") == 2]

def v025():
    class_counts = {}
    for name, grade in (("e1", 1), ("e12", 2), ("e2", 1), ("e", 0)):
        class_counts.setdefault(grade, []).append(name)
    inv = {n: g for g, ns in class_counts.items() for n in ns}
    return class_counts, inv, sorted(inv, key=lambda n: (len(n), n)), max(class_counts, key=lambda g: len(class_counts[g]))
