from kingdon import Algebra
for kw in ({}, {'simp_func': None}):
    alg = Algebra(6, **kw)
    y = alg.multivector(e=2, e1=1)
    yi = y.inv()
    print(kw, 'inv =', yi, '| y*inv =', y*yi, '| keys', yi.keys()[:6], [v for v in yi.values()][:4])
    v = alg.vector([1,2,3,4,5,6])
    print('   vector inv:', v.inv() , '| v*inv', v*v.inv())
