# demonstrations of the defects F16 - F21 (must pass on HEAD)
import numpy as np, sympy
from kingdon import Algebra
from kingdon.graph import encode, walker
from kingdon.matrixreps import expr_as_matrix
alg = Algebra(2, 0, 1)
for vals in (np.array([1, 2, 3]), np.array([1., 2., 3.], dtype=np.float32)):
    p = walker(encode([alg.vector(vals)], root=True))[0]
    assert np.frombuffer(p['mv'], dtype=np.float64).tolist() == [1.0, 2.0, 3.0]
a3 = Algebra(3)
for f in (lambda: a3.multivector({'e1': 1}, e2=2), lambda: a3.multivector(keys=(1,), values=[3], e12=5)):
    try:
        f(); raise SystemExit("F17: no error")
    except ValueError:
        pass
g = Algebra(3, graded=True)
try:
    g.multivector({'e1': 1}); raise SystemExit("F18: no error")
except ValueError:
    pass
assert g.multivector({'e1': 1, 'e2': 2, 'e3': 3}).keys() == (1, 2, 4)
s2 = Algebra(2, codegen_symbolcls=sympy.Symbol)
x = s2.multivector(e=2.0, e12=1.0)
r = x.sqrt(); d = r * r - x
assert all(abs(v) < 1e-12 for v in d.values()), d
a2 = Algebra(2)
R = a2.vector([np.array([1.0, 2.0]), np.array([3.0, 4.0])])
A, y = expr_as_matrix(lambda R, x: R * x, R, a2.vector(name='A'))
assert np.array(A).shape == (2, 2, 2), np.array(A).shape
b = R + 2.5
assert b.shape == (3, 2) and dict(b[1].items()) == {0: 2.5, 1: 2.0, 2: 4.0}
print("ok")
