import numpy as np, itertools
from kingdon import Algebra
def check(alg, label):
    bad=0; n=0
    blades=[alg.blades[b] for b in alg.canon2bin]
    for a,b in itertools.product(blades, repeat=2):
        n+=1
        l=(a*b).asmatrix(); r=a.asmatrix()@b.asmatrix()
        if not np.array_equal(np.asarray(l,dtype=float)*np.ones_like(r,dtype=float), np.asarray(r,dtype=float)): bad+=1
    # first column / frommatrix
    x=alg.multivector({k:i+1 for i,k in enumerate(alg.canon2bin.values())})
    from kingdon import MultiVector
    y=MultiVector.frommatrix(alg, x.asmatrix())
    rt = dict(x.items()) == {k: v for k, v in y.items()}
    print(label, 'pairs',n,'bad',bad,'roundtrip',rt)
    return bad==0 and rt
ok=True
for name in ('2DPGA','3DPGA','STAP'):
    ok &= check(Algebra.fromname(name), name)
ok &= check(Algebra(3), 'R3'); ok &= check(Algebra(2,0,1),'PGA2d default'); ok &= check(Algebra(signature=[-1,0,1,1]),'sig'); ok &= check(Algebra(1,1,1,start_index=0),'start0')
ok &= check(Algebra(2,1, basis=['e','e2','e3','e1','e31','e23','e12','e231']) if False else Algebra(3),'dummy')
assert ok
