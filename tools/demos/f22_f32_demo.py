# demonstrations of the defects F22 - F32 (each block prints FAIL <id> when the defect is present; exit 1 if any)
import sys
import numpy as np
from kingdon import Algebra
from kingdon.polynomial import Polynomial, RationalPolynomial

bad = []


def check(fid, f):
    try:
        ok = f()
    except Exception as exc:  # noqa
        ok = False
        print(f"FAIL {fid}: {type(exc).__name__}: {exc}")
    else:
        if not ok:
            print(f"FAIL {fid}")
    if not ok:
        bad.append(fid)


a2 = Algebra(2)
a3 = Algebra(3)


def f22():
    x = a2.vector([1.0, 2.0])
    try:
        x[5]
    except (TypeError, IndexError):
        return True
    return False


def f23():
    z = RationalPolynomial([[0]], [[1]])
    one = z + 1
    x = RationalPolynomial([[1, 'x']], [[1]])
    y = Polynomial([[1, 'y']])
    p = x * y
    q = y * x
    return (isinstance(one, RationalPolynomial) and isinstance(p, RationalPolynomial) and isinstance(q, RationalPolynomial)
            and all(isinstance(t, list) and not isinstance(t[0], list) for t in p.numer.args)
            and (y ** 0) is not None and (x ** 0) is not None)


def f24():
    m = a2.multivector({}).asmatrix()
    return np.array(m).shape == (4, 4) and not np.array(m).any() and np.array(Algebra(0).matrix_basis[0]).shape == (1, 1)


def raises(f, *excs):
    try:
        f()
    except excs:
        return True
    return False


def f25():
    return (raises(lambda: a2.multivector(values=[1, 2], keys=(1, 1)), ValueError)
            and raises(lambda: a2.multivector(values=[1, 2], keys=('e1', 1)), ValueError)
            and a2.multivector(values=[1, 2], keys=[1, 2]).keys() == (1, 2))


def f26():
    x = a3.multivector(e=1, e12=2, e1=5)
    return x.grade(2, 0).keys() == x.grade(0, 2).keys() == (0, 3) and x.grade(1, 1).keys() == (1,)


def f27():
    r = a3.multivector({}).sqrt()
    return not any(r.values())


def f28():
    import warnings
    warnings.simplefilter('ignore')
    x = a3.vector([3.0, 4.0, 12.0])

    def norm(v): return v.norm()
    def unit(v): return v.normalized()
    got = a3.register(symbolic=True)(norm)(x)
    u = a3.register(symbolic=True)(unit)(x)
    return abs(got.e - 13.0) < 1e-12 and abs(u.e1 - 3 / 13) < 1e-12


def f29():
    import sympy
    a, b = sympy.symbols('a b')
    mv = a3.vector([a, 2.5, b])
    ok = mv(b=2, a=1).e3 == 2 and mv(1, 2).e3 == 2
    try:
        res = mv(a=1, c=2)
    except TypeError:
        return ok
    return False


def f30():
    p = a2.multivector([1., 2., 3., 4.])
    xn = a2.multivector(np.zeros((4, 4)))
    xn[:] = p
    xn3 = a2.multivector(np.zeros((4, 3)))
    xn3[1] = p
    return all([float(v) for v in xn[i].values()] == [1., 2., 3., 4.] for i in range(4)) \
        and [float(v) for v in xn3[1].values()] == [1., 2., 3., 4.] and not np.array(xn3[0].values()).any()


def f31():
    alg = Algebra(3, 1, 1)
    return all(np.allclose(alg.vector(e1=t).exp().e, np.cosh(1.0), rtol=1e-6) for t in (np.float32(1.0), np.int64(1), 1.0))


def f32():
    x = a2.vector([1.0, 2.0])
    r = a2.evenmv(np.array([2, 1]))
    return (x / np.int64(2)).e1 == 0.5 and (x / np.uint8(2)).e2 == 1.0 and abs((r.inv() * r).e - 1.0) < 1e-12


for fid, f in [("F22", f22), ("F23", f23), ("F24", f24), ("F25", f25), ("F26", f26), ("F27", f27), ("F28", f28), ("F29", f29), ("F30", f30),
               ("F31", f31), ("F32", f32)]:
    check(fid, f)
if bad:
    sys.exit(1)
print("ok")
