from kingdon import Algebra
from kingdon.operator_dict import AlgebraError
A=Algebra(signature=[1,-1]); B=Algebra(signature=[-1,1])
assert A != B, "algebras with different metric compare equal"
try:
    r = A.vector([1,0]) * B.vector([1,0])
except AlgebraError: pass
else: raise AssertionError(f"silently combined: {r}")
assert Algebra(3) == Algebra(3) and Algebra(2,0,1) == Algebra(signature=[0,1,1]) and Algebra(3) != Algebra(3, cse=False)
assert Algebra.fromname('3DPGA') == Algebra.fromname('3DPGA') and Algebra.fromname('3DPGA') != Algebra(3,0,1)
assert (Algebra(2) == 5) is False and Algebra(2) != None
try: hash(Algebra(2)); raise AssertionError('hashable')
except TypeError: pass
x = Algebra(2).vector([1,2]) + Algebra(2).vector([3,4]); print(x)
print('ok')
