# demonstrations of the defects F22 - F27 (each block prints FAIL <id> when the defect is present; exit 1 if any)
import sys
import numpy as np
from kingdon import Algebra
from kingdon.polynomial import Polynomial, RationalPolynomial

bad = []


def check(fid, f):
    try:
        ok = f()
    except Exception as exc:  # noqa
        ok = False
        print(f"FAIL {fid}: {type(exc).__name__}: {exc}")
    else:
        if not ok:
            print(f"FAIL {fid}")
    if not ok:
        bad.append(fid)


a2 = Algebra(2)
a3 = Algebra(3)


def f22():
    x = a2.vector([1.0, 2.0])
    try:
        x[5]
    except (TypeError, IndexError):
        return True
    return False


def f23():
    z = RationalPolynomial([[0]], [[1]])
    one = z + 1
    x = RationalPolynomial([[1, 'x']], [[1]])
    y = Polynomial([[1, 'y']])
    p = x * y
    q = y * x
    return (isinstance(one, RationalPolynomial) and isinstance(p, RationalPolynomial) and isinstance(q, RationalPolynomial)
            and all(isinstance(t, list) and not isinstance(t[0], list) for t in p.numer.args)
            and (y ** 0) is not None and (x ** 0) is not None)


def f24():
    m = a2.multivector({}).asmatrix()
    return np.array(m).shape == (4, 4) and not np.array(m).any() and np.array(Algebra(0).matrix_basis[0]).shape == (1, 1)


def raises(f, *excs):
    try:
        f()
    except excs:
        return True
    return False


def f25():
    return (raises(lambda: a2.multivector(values=[1, 2], keys=(1, 1)), ValueError)
            and raises(lambda: a2.multivector(values=[1, 2], keys=('e1', 1)), ValueError)
            and a2.multivector(values=[1, 2], keys=[1, 2]).keys() == (1, 2))


def f26():
    x = a3.multivector(e=1, e12=2, e1=5)
    return x.grade(2, 0).keys() == x.grade(0, 2).keys() == (0, 3) and x.grade(1, 1).keys() == (1,)


def f27():
    r = a3.multivector({}).sqrt()
    return not any(r.values())


for fid, f in [("F22", f22), ("F23", f23), ("F24", f24), ("F25", f25), ("F26", f26), ("F27", f27)]:
    check(fid, f)
if bad:
    sys.exit(1)
print("ok")
