#!/bin/sh
# Run every registered check (default tier quick) and summarise exit codes.
tier=${1:-quick}
cd "$(dirname "$0")/.."
fail=0
for n in 01 02 03 04 05 06 07 08 09 10 11 12 13 14 15 16 17 18 19 20; do
  out=$(KVERIF_STRICT_LIVENESS=1 python3-vt -m kverif check C$n --tier $tier 2>&1 | grep -v "^WARNING")
  code=$(echo "$out" | tail -1 | sed 's/.*exit=//')
  echo "$out" | tail -1
  if [ "$code" != "0" ]; then fail=1; echo "$out" | grep -v "^\[" | cut -c1-300 | head -8; fi
done
# the abstract interpreter itself: differential test against CPython (a wrong concrete value is a soundness bug)
python3-vt tools/interp_difftest.py 2>&1 | grep -v '^WARNING' | tail -1
python3-vt tools/interp_difftest.py >/dev/null 2>&1 || { echo 'interpreter differential test: MISMATCH'; fail=1; }
exit $fail
