#!/usr/bin/env python3
"""Run every registered quick check against a scratch copy of /repo with one patch applied.

Usage: python3-vt tools/eval_patch.py <patch.diff> [<patch.diff> ...]
The scratch copy lives outside /repo and /verif (KVERIF_REPO points the checks at it) and is removed afterwards.
Prints, per patch, which properties report VIOLATION / ANALYSIS-ERROR.  (Development tool; the registered checks
always analyse /repo itself.)
"""
import json
import os
import shutil
import subprocess
import sys
import tempfile

HERE = os.path.dirname(os.path.dirname(os.path.abspath(__file__)))
PROPS = [f"C{n:02d}" for n in range(1, 21)]


def run(patch):
    tmp = tempfile.mkdtemp(prefix="kverif_eval_")
    try:
        dst = os.path.join(tmp, "repo")
        os.makedirs(dst)
        shutil.copytree("/repo/kingdon", os.path.join(dst, "kingdon"), ignore=shutil.ignore_patterns("__pycache__"))
        r = subprocess.run(["patch", "-p1", "-s", "-d", dst, "-i", os.path.abspath(patch)], capture_output=True, text=True)
        if r.returncode != 0:
            return {"error": f"patch does not apply: {r.stdout[-300:]} {r.stderr[-300:]}"}
        env = dict(os.environ, KVERIF_REPO=dst, KVERIF_NOWRITE="1")
        res = {}
        for p in PROPS:
            out = subprocess.run(["python3-vt", "-c",
                                  "import sys; sys.path.insert(0, %r); from kverif.cli import run_check; "
                                  "sys.exit(run_check(%r, 'quick', write=False))" % (HERE, p)],
                                 capture_output=True, text=True, env=env, cwd=HERE)
            lines = out.stdout.splitlines()
            viol = [l for l in lines if l.startswith("  rule=")]
            errs = [l for l in lines if l.startswith("ANALYSIS-ERROR")]
            if out.returncode != 0:
                res[p] = {"exit": out.returncode, "violations": [v.strip()[:160] for v in viol][:4], "errors": [e[:200] for e in errs][:3]}
        return res
    finally:
        shutil.rmtree(tmp, ignore_errors=True)


if __name__ == "__main__":
    for patch in sys.argv[1:]:
        res = run(patch)
        print(f"=== {patch}")
        if "error" in res:
            print("   ", res["error"])
            continue
        if not res:
            print("    (no check reacted)")
        for p, r in res.items():
            tag = "VIOLATION" if r["exit"] == 1 else "ANALYSIS-ERROR"
            print(f"    {p}: {tag}")
            for v in r["violations"]:
                print(f"        {v}")
            for e in r["errors"]:
                print(f"        {e}")
